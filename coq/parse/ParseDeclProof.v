(* C17: every well-formed struct declaration of the grammar (P/ParseDeclGrammar.v) is parsed by the model of parse_data (P/ParseDecl.v)
   to exactly the expected structure: no panic, nothing left over, attributes / fields / generics / where clauses all accounted for. *)
From Coq Require Import List Arith Lia Bool String.
Import ListNotations.
Require Import P.ParseModel P.ParseGrammar P.ParseProof P.ParsePrintModel P.ParsePrint P.ParseDecl P.ParseDeclGrammar.
Local Open Scope string_scope. Local Open Scope list_scope.

(* ---------- token equality is sound ---------- *)
Section TtInd.
Variable P : tt -> Prop.
Hypothesis HId : forall s, P (TId s).
Hypothesis HP : forall p, P (TP p).
Hypothesis HL : forall l, P (TLit l).
Hypothesis HG : forall d ts, Forall P ts -> P (TG d ts).
Fixpoint tt_ind2 (t: tt) : P t :=
  match t with
  | TId s => HId s | TP p => HP p | TLit l => HL l
  | TG d ts => HG d ts ((fix go (l: list tt) : Forall P l := match l with [] => Forall_nil _ | x :: r => Forall_cons _ (tt_ind2 x) (go r) end) ts)
  end.
End TtInd.

Lemma pnum_inj p q : pnum p = pnum q -> p = q.
Proof. destruct p, q; cbn; intros H; try reflexivity; discriminate. Qed.
Lemma dnum_inj p q : dnum p = dnum q -> p = q.
Proof. destruct p, q; cbn; intros H; try reflexivity; discriminate. Qed.
Lemma lit_eqb_eq a b : lit_eqb a b = true -> a = b.
Proof. destruct a, b; cbn; intros H; try discriminate; [apply Nat.eqb_eq in H|apply String.eqb_eq in H]; congruence. Qed.

Lemma tt_eqb_eq : forall a b, tt_eqb a b = true -> a = b.
Proof.
  induction a as [s|p|l|d ts IH] using tt_ind2; intros b H; destruct b as [s'|p'|l'|d' ts']; cbn in H; try discriminate.
  - apply String.eqb_eq in H. congruence.
  - apply Nat.eqb_eq, pnum_inj in H. congruence.
  - apply lit_eqb_eq in H. congruence.
  - apply andb_true_iff in H. destruct H as [Hd Hl]. apply Nat.eqb_eq, dnum_inj in Hd. subst d'. f_equal.
    revert ts' Hl. induction IH as [|x xs Hx Hxs IHxs]; intros [|y ys] Hl; try discriminate; [reflexivity|].
    apply andb_true_iff in Hl. destruct Hl as [H1 H2]. f_equal; [apply Hx; exact H1|apply IHxs; exact H2].
Qed.
Lemma tts_eqb_eq : forall x y, tts_eqb x y = true -> x = y.
Proof.
  induction x as [|a x IH]; intros [|b y] H; cbn in H; try discriminate; [reflexivity|].
  apply andb_true_iff in H. destruct H as [H1 H2]. f_equal; [apply tt_eqb_eq; exact H1|apply IH; exact H2].
Qed.
Lemma tt_eqb_refl : forall a, tt_eqb a a = true.
Proof.
  induction a as [s|p|l|d ts IH] using tt_ind2; cbn.
  - apply String.eqb_refl.
  - apply Nat.eqb_refl.
  - destruct l; cbn; [apply Nat.eqb_refl|apply String.eqb_refl].
  - rewrite Nat.eqb_refl. cbn. induction IH as [|x xs Hx Hxs IHxs]; [reflexivity|]. rewrite Hx. exact IHxs.
Qed.
Lemma tts_eqb_refl : forall x, tts_eqb x x = true.
Proof. induction x as [|a x IH]; [reflexivity|]. cbn. rewrite tt_eqb_refl. exact IH. Qed.
Lemma tts_eqb_neq x y : x <> y -> tts_eqb x y = false.
Proof. intros H. destruct (tts_eqb x y) eqn:E; [exfalso; apply H, tts_eqb_eq; exact E|reflexivity]. Qed.

(* ---------- small facts about separators ---------- *)
Lemma sep_comma_two {A} (f: A -> list tt) x y r : sep_comma (map f (x :: y :: r)) = f x ++ TP PComma :: sep_comma (map f (y :: r)).
Proof. reflexivity. Qed.
Lemma sep_plus_two {A} (f: A -> list tt) x y r : sep_plus (map f (x :: y :: r)) = f x ++ TP PPlus :: sep_plus (map f (y :: r)).
Proof. reflexivity. Qed.
Lemma length_sep_comma_ge {A} (f: A -> list tt) (l: list A) : (forall a, 1 <= List.length (f a)) -> List.length l <= List.length (sep_comma (map f l)).
Proof.
  intros Hf. induction l as [|x l IH]; [cbn; lia|]. destruct l as [|y r].
  - cbn. pose proof (Hf x). lia.
  - rewrite sep_comma_two, app_length. cbn [List.length] in *. pose proof (Hf x). lia.
Qed.

(* ---------- attributes ---------- *)
Definition trail (tr: bool) : list tt := if tr then [TP PComma] else [].

Lemma attr_loop_ok : forall items k attrs tr, List.length items < k -> (tr = true -> items <> []) ->
  attr_loop k (sep_comma (map lex_item items) ++ trail tr) attrs [] = Ok (attrs ++ map exp_item items) [].
Proof.
  induction items as [|i rest IH]; intros k attrs tr Hk Htr.
  - destruct tr; [exfalso; apply Htr; reflexivity|]. destruct k; [cbn in Hk; lia|]. cbn. rewrite app_nil_r. reflexivity.
  - destruct k as [|k]; [cbn in Hk; lia|]. destruct rest as [|j r].
    + (* last item *)
      destruct k as [|k]; [destruct tr, i; cbn; reflexivity || (cbn in Hk; lia)|].
      destruct i as [n|n v]; destruct tr; cbn; reflexivity.
    + rewrite sep_comma_two, <- app_assoc. destruct i as [n|n v]; cbn [lex_item app attr_loop].
      * rewrite (IH k (attrs ++ [[AId n]]) tr); [|cbn in Hk |- *; lia|intros _; discriminate].
        cbn [map]. rewrite <- app_assoc. reflexivity.
      * rewrite (IH k (attrs ++ [[AId n; ALit v]]) tr); [|cbn in Hk |- *; lia|intros _; discriminate].
        cbn [map]. rewrite <- app_assoc. reflexivity.
Qed.

Definition wf_attr (a: gattr) : Prop :=
  match a with GADiff items tr => tr = true -> items <> [] | GAOther n _ => (n =? "difference") = false end.
Definition nopunct (rest: list tt) : Prop := match rest with TP _ :: _ => False | _ => True end.

Lemma length_lex_item i : 1 <= List.length (lex_item i).
Proof. destruct i; cbn; lia. Qed.

Lemma next_attribute_ok a rest : wf_attr a ->
  next_attribute (lex_attr a ++ rest) = Ok (Some (match a with GADiff items _ => Some (map exp_item items) | GAOther _ _ => None end)) rest.
Proof.
  intros W. destruct a as [items tr|n body]; cbn [lex_attr app next_attribute].
  - cbn [String.eqb]. change ("difference" =? "difference") with true. cbn iota.
    fold (trail tr). rewrite attr_loop_ok; [reflexivity| |exact W].
    rewrite app_length. pose proof (length_sep_comma_ge lex_item items length_lex_item). lia.
  - cbn in W. rewrite W. reflexivity.
Qed.

Lemma attrs_list_ok : forall attrs k acc rest, List.length attrs < k -> Forall wf_attr attrs -> nopunct rest ->
  attrs_list k acc (flat_map lex_attr attrs ++ rest) = Ok (acc ++ exp_attrs attrs) rest.
Proof.
  induction attrs as [|a attrs IH]; intros k acc rest Hk W Hr; (destruct k; [cbn in Hk; lia|]).
  - cbn [flat_map app attrs_list exp_attrs]. rewrite app_nil_r.
    destruct rest as [|[s|p|l|d ts] r]; try reflexivity. contradiction.
  - inversion W as [|? ? Wa Wr]; subst. cbn [flat_map attrs_list]. rewrite <- app_assoc, (next_attribute_ok a _ Wa). cbn [bind].
    destruct a as [items tr|n body].
    + rewrite IH; [|cbn in Hk; lia|exact Wr|exact Hr]. unfold exp_attrs at 2. cbn [flat_map]. rewrite <- app_assoc. reflexivity.
    + rewrite IH; [|cbn in Hk; lia|exact Wr|exact Hr]. reflexivity.
Qed.

Lemma length_lex_attr a : 1 <= List.length (lex_attr a).
Proof. destruct a; cbn; lia. Qed.
Lemma length_flat_attrs attrs : List.length attrs <= List.length (flat_map lex_attr attrs).
Proof. induction attrs as [|a l IH]; [cbn; lia|]. cbn [flat_map]. rewrite app_length. pose proof (length_lex_attr a). cbn [List.length]. lia. Qed.

(* ---------- fields ---------- *)
Definition wf_field (fuel: nat) (f: gfield) : Prop :=
  Forall wf_attr (gf_attrs f) /\ (gf_name f =? "pub") = false /\ wf (gf_ty f) /\ depth (gf_ty f) < fuel.

Lemma field_step fuel k f acc more : wf_field fuel f -> (more = [] \/ exists r, more = TP PComma :: r) ->
  fields_loop fuel (S k) true acc (lex_field f ++ more) =
  fields_loop fuel k true (acc ++ [exp_field3 f]) (match more with TP _ :: r => r | _ => more end).
Proof.
  intros (Wa & Wn & Wt & Wd) Hm. unfold fields_loop. cbn [fields_nt]. unfold lex_field. rewrite <- !app_assoc.
  destruct (flat_map lex_attr (gf_attrs f) ++ lex_vis (gf_vis f) ++ (TId (gf_name f) :: TP PColon :: lex (gf_ty f)) ++ more) as [|t0 s0] eqn:E.
  { exfalso. destruct (gf_vis f); destruct (flat_map lex_attr (gf_attrs f)); cbn in E; discriminate. }
  rewrite <- E. clear E t0 s0.
  rewrite attrs_list_ok; [| |exact Wa|].
  2:{ rewrite !app_length. pose proof (length_flat_attrs (gf_attrs f)). lia. }
  2:{ destruct (gf_vis f); cbn; exact I. }
  cbn [bind app]. unfold exp_attrs. fold (exp_attrs (gf_attrs f)).
  assert (V: next_vis (lex_vis (gf_vis f) ++ TId (gf_name f) :: TP PColon :: lex (gf_ty f) ++ more) = TId (gf_name f) :: TP PColon :: lex (gf_ty f) ++ more).
  { destruct (gf_vis f); cbn [lex_vis app next_vis].
    - rewrite Wn. reflexivity.
    - change ("pub" =? "pub") with true. cbn iota. reflexivity.
    - change ("pub" =? "pub") with true. cbn iota. reflexivity. }
  rewrite V. cbn [app bind].
  assert (Hs: stop more) by (destruct Hm as [->|(r & ->)]; exact I).
  rewrite (proj1 (all_wf_types (gf_ty f) Wt) fuel more Wd Hs). cbn [expect bind]. unfold exp_field3. reflexivity.
Qed.

Lemma fields_ok fuel : forall fs k acc tr, List.length fs < k -> Forall (wf_field fuel) fs -> (tr = true -> fs <> []) ->
  fields_loop fuel k true acc (lex_body fs tr) = Ok (acc ++ map exp_field3 fs) [].
Proof.
  unfold lex_body. induction fs as [|f fs IH]; intros k acc tr Hk W Htr.
  - destruct tr; [exfalso; apply Htr; reflexivity|]. destruct k; [cbn in Hk; lia|]. cbn. rewrite app_nil_r. reflexivity.
  - inversion W as [|? ? Wf Wr]; subst. destruct k as [|k]; [cbn in Hk; lia|]. destruct fs as [|f2 r].
    + cbn [map sep_comma]. destruct tr.
      * rewrite (field_step fuel k f acc [TP PComma] Wf); [|right; eexists; reflexivity].
        destruct k; [cbn in Hk; lia|]. cbn. reflexivity.
      * cbn [app]. rewrite app_nil_r. rewrite <- (app_nil_r (lex_field f)). rewrite (field_step fuel k f acc [] Wf); [|left; reflexivity].
        destruct k; [cbn in Hk; lia|]. cbn. reflexivity.
    + rewrite sep_comma_two, <- app_assoc. cbn [app].
      rewrite (field_step fuel k f acc _ Wf); [|right; eexists; reflexivity].
      rewrite (IH k (acc ++ [exp_field3 f]) tr); [|cbn in Hk |- *; lia|exact Wr|intros _; discriminate].
      cbn [map]. rewrite <- app_assoc. reflexivity.
Qed.

(* ---------- bounds ---------- *)
Definition noplus (rest: list tt) : Prop := match rest with TP PPlus :: _ => False | _ => True end.
Definition wf_ty (fuel: nat) (t: g) : Prop := wf t /\ depth t < fuel.

Lemma noplus_match {A} (rest: list tt) (x y: list tt -> A) : noplus rest ->
  match rest with TP PPlus :: s2 => x s2 | _ => y rest end = y rest.
Proof. destruct rest as [|[s|p|l|d ts] r]; try reflexivity. destruct p; try reflexivity. contradiction. Qed.

Lemma length_sep_plus_ge {A} (f: A -> list tt) (l: list A) : (forall a, 1 <= List.length (f a)) -> List.length l <= List.length (sep_plus (map f l)).
Proof.
  intros Hf. induction l as [|x l IH]; [cbn; lia|]. destruct l as [|y r].
  - cbn. pose proof (Hf x). lia.
  - rewrite sep_plus_two, app_length. cbn [List.length] in *. pose proof (Hf x). lia.
Qed.

Lemma bounds_loop_ok fuel : forall bs k acc rest, bs <> [] -> List.length bs <= k -> Forall (wf_ty fuel) bs -> stop rest -> noplus rest ->
  bounds_loop fuel k acc (sep_plus (map lex bs) ++ rest) = Ok (acc ++ map embed bs) rest.
Proof.
  induction bs as [|b bs IH]; intros k acc rest Hne Hk W Hs Hp; [contradiction|].
  inversion W as [|? ? [Wb Db] Wr]; subst. destruct k as [|k]; [cbn in Hk; lia|]. destruct bs as [|b2 r].
  - cbn [map sep_plus bounds_loop]. rewrite (proj1 (all_wf_types b Wb) fuel rest Db Hs). cbn [bind].
    rewrite (noplus_match rest _ (fun r => Ok (acc ++ [embed b]) r) Hp). reflexivity.
  - rewrite sep_plus_two, <- app_assoc. cbn [app bounds_loop].
    erewrite (proj1 (all_wf_types b Wb) fuel _ Db); [|exact I]. cbn [bind].
    rewrite (IH k (acc ++ [embed b]) rest); [|discriminate|cbn in Hk |- *; lia|exact Wr|exact Hs|exact Hp].
    cbn [map]. rewrite <- app_assoc. reflexivity.
Qed.

Lemma bounds_while_ok fuel : forall bs k acc rest, bs <> [] -> List.length bs <= k -> Forall (wf_ty fuel) bs -> stop rest -> noplus rest ->
  bounds_while fuel k acc (sep_plus (map lex bs) ++ rest) = Ok (acc ++ map embed bs) rest.
Proof.
  induction bs as [|b bs IH]; intros k acc rest Hne Hk W Hs Hp; [contradiction|].
  inversion W as [|? ? [Wb Db] Wr]; subst. destruct k as [|k]; [cbn in Hk; lia|]. destruct bs as [|b2 r].
  - cbn [map sep_plus bounds_while]. rewrite (proj1 (all_wf_types b Wb) fuel rest Db Hs). cbn [bind].
    rewrite (noplus_match rest _ (fun r => Ok (acc ++ [embed b]) r) Hp). reflexivity.
  - rewrite sep_plus_two, <- app_assoc. cbn [app bounds_while].
    erewrite (proj1 (all_wf_types b Wb) fuel _ Db); [|exact I]. cbn [bind].
    rewrite (IH k (acc ++ [embed b]) rest); [|discriminate|cbn in Hk |- *; lia|exact Wr|exact Hs|exact Hp].
    cbn [map]. rewrite <- app_assoc. reflexivity.
Qed.

Lemma life_bounds_ok : forall bs k acc rest, bs <> [] -> List.length bs <= k -> noplus rest ->
  life_bounds k acc (sep_plus (map (fun b => [TP PQuote; TId b]) bs) ++ rest) = Ok (acc ++ bs) rest.
Proof.
  induction bs as [|b bs IH]; intros k acc rest Hne Hk Hp; [contradiction|].
  destruct k as [|k]; [cbn in Hk; lia|]. destruct bs as [|b2 r].
  - cbn [map sep_plus app life_bounds]. rewrite (noplus_match rest _ (fun r => Ok (acc ++ [b]) r) Hp). reflexivity.
  - rewrite sep_plus_two. cbn [app life_bounds].
    rewrite (IH k (acc ++ [b]) rest); [|discriminate|cbn in Hk |- *; lia|exact Hp]. rewrite <- app_assoc. reflexivity.
Qed.

Lemma lex_head_nocolon b rest : match lex b ++ rest with TP PColon :: _ => False | _ => True end.
Proof. destruct b as [s0 segs args|[a|] t|l tr|t [[n|s]|]|a|]; cbn; exact I. Qed.
Lemma sep_plus_head_nocolon bs rest : match sep_plus (map lex bs) ++ rest with TP PColon :: _ => False | _ => True end -> True.
Proof. intros _. exact I. Qed.
Lemma stop_colon_bounds bs rest : bs <> [] -> stop (TP PColon :: sep_plus (map lex bs) ++ rest).
Proof.
  intros Hne. destruct bs as [|b [|b2 r]]; [contradiction| |].
  - cbn [map sep_plus stop]. apply lex_head_nocolon.
  - rewrite sep_plus_two, <- app_assoc. cbn [stop]. apply lex_head_nocolon.
Qed.

(* ---------- one generic parameter ---------- *)
Definition pstop (R: list tt) : Prop := match R with TP PComma :: _ | TP PGt :: _ => True | _ => False end.
Lemma pstop_stop R : pstop R -> stop R. Proof. destruct R as [|[s|[]|l|d ts] r]; cbn; tauto. Qed.
Lemma pstop_noplus R : pstop R -> noplus R. Proof. destruct R as [|[s|[]|l|d ts] r]; cbn; tauto. Qed.

Definition wf_param (fuel: nat) (p: gparam) : Prop :=
  match p with
  | PLife _ _ => True
  | PType n bs d => is_kw n = false /\ (n =? "const") = false /\ 1 < fuel /\ Forall (wf_ty fuel) bs /\ match d with None => True | Some t => wf_ty fuel t end
  | PConst n t d => wf_ty fuel t /\ 1 < fuel /\ match d with Some (LName s) => is_kw s = false | _ => True end
  end.

Lemma ng_life fuel a bs R : pstop R -> next_generic fuel (lex_param (PLife a bs) ++ R) = Ok (Some (GnLife a bs)) R.
Proof.
  intros HR. cbn [lex_param app next_generic]. destruct bs as [|b r].
  - cbn [app]. destruct R as [|[s|[]|l|d ts] r]; cbn in HR; try contradiction; reflexivity.
  - cbn [app]. rewrite life_bounds_ok; [reflexivity|discriminate| |apply pstop_noplus; exact HR].
    rewrite app_length. pose proof (length_sep_plus_ge (fun b0 => [TP PQuote; TId b0]) (b :: r) ltac:(intros; cbn; lia)). lia.
Qed.

Lemma nt_name fuel n X : is_kw n = false -> 1 < fuel -> stop X -> next_type fuel (TId n :: X) = Ok (Some (Ty (CNamed [n]) None None None)) X.
Proof.
  intros Hk Hf Hs. change (TId n :: X) with (lex (GPath n [] []) ++ X).
  apply (proj1 (all_wf_types (GPath n [] []) ltac:(cbn; auto))); [cbn; lia|exact Hs].
Qed.

Lemma ng_type fuel n bs d R : wf_param fuel (PType n bs d) -> pstop R ->
  next_generic fuel (lex_param (PType n bs d) ++ R) = Ok (Some (exp_param (PType n bs d))) R.
Proof.
  intros (Hk & Hc & Hf & Wb & Wd) HR. cbn [lex_param app next_generic]. rewrite Hc.
  set (D := match d with None => [] | Some t => TP PEq :: lex t end).
  assert (SD: stop (D ++ R) /\ noplus (D ++ R)).
  { subst D. destruct d; cbn [app]; [split; exact I|split; [apply pstop_stop|apply pstop_noplus]; exact HR]. }
  assert (Tail: forall bsx, match D ++ R with TP PEq :: s5 => bind (expect (next_type fuel s5)) (fun d0 s6 => Ok (Some (GnType [TId n] (Some d0) bsx)) s6)
                                        | _ => Ok (Some (GnType [TId n] None bsx)) (D ++ R) end = Ok (Some (GnType [TId n] (option_map embed d) bsx)) R).
  { intros bsx. subst D. destruct d as [t|]; cbn [app option_map].
    - destruct Wd as [Wt Dt]. rewrite (proj1 (all_wf_types t Wt) fuel R Dt (pstop_stop R HR)). reflexivity.
    - destruct R as [|[s|[]|l|dd ts] r]; cbn in HR; try contradiction; reflexivity. }
  destruct bs as [|b r].
  - unfold lex_bounds. cbn [app]. rewrite (nt_name fuel n (D ++ R) Hk Hf (proj1 SD)). cbn [expect bind]. rewrite (pr_name n Hk).
    replace (match D ++ R with TP PColon :: s3 => bounds_loop fuel (S (List.length s3)) [] s3 | _ => Ok [] (D ++ R) end) with (@Ok (list ty) [] (D ++ R)).
    2:{ subst D. destruct d; cbn [app]; [reflexivity|]. destruct R as [|[s|[]|l|dd ts] r]; cbn in HR; try contradiction; reflexivity. }
    cbn [bind]. apply Tail.
  - unfold lex_bounds. rewrite <- app_assoc. cbn [app].
    rewrite (nt_name fuel n _ Hk Hf (stop_colon_bounds (b :: r) (D ++ R) ltac:(discriminate))). cbn [expect bind]. rewrite (pr_name n Hk).
    rewrite bounds_loop_ok; [|discriminate| |exact Wb|exact (proj1 SD)|exact (proj2 SD)].
    2:{ rewrite app_length. pose proof (length_sep_plus_ge lex (b :: r) lex_nonempty). lia. }
    cbn [bind app]. apply Tail.
Qed.

Lemma ng_const fuel n t d R : wf_param fuel (PConst n t d) -> pstop R ->
  next_generic fuel (lex_param (PConst n t d) ++ R) = Ok (Some (exp_param (PConst n t d))) R.
Proof.
  intros ([Wt Dt] & Hf & Wd) HR. cbn [lex_param app next_generic]. change ("const" =? "const") with true. cbn iota.
  cbn [next_const_generic]. rewrite <- app_assoc.
  destruct d as [[k|s]|].
  - erewrite (proj1 (all_wf_types t Wt) fuel _ Dt); [|exact I]. cbn [expect bind app]. reflexivity.
  - erewrite (proj1 (all_wf_types t Wt) fuel _ Dt); [|exact I]. cbn [expect bind app].
    rewrite (nt_name fuel s R Wd Hf (pstop_stop R HR)). reflexivity.
  - cbn [app]. rewrite (proj1 (all_wf_types t Wt) fuel R Dt (pstop_stop R HR)). cbn [expect bind].
    destruct R as [|[s|[]|l|dd ts] r]; cbn in HR; try contradiction; reflexivity.
Qed.

Lemma ng_param fuel p R : wf_param fuel p -> pstop R -> next_generic fuel (lex_param p ++ R) = Ok (Some (exp_param p)) R.
Proof. destruct p; intros W HR; [apply ng_life; exact HR|apply ng_type; assumption|apply ng_const; assumption]. Qed.

(* ---------- one where-clause item ---------- *)
Definition wstop (R: list tt) : Prop := match R with TP PComma :: _ | TG Brace _ :: _ => True | _ => False end.
Lemma wstop_stop R : wstop R -> stop R. Proof. destruct R as [|[s|[]|l|[] ts] r]; cbn; tauto. Qed.
Lemma wstop_noplus R : wstop R -> noplus R. Proof. destruct R as [|[s|[]|l|[] ts] r]; cbn; tauto. Qed.

Definition wf_where (fuel: nat) (w: gwhere) : Prop :=
  is_base (gw_ty w) = true /\ wf_ty fuel (gw_ty w) /\ (match gw_ty w with GPath s0 _ _ => (s0 =? "const") = false | _ => True end) /\
  gw_bounds w <> [] /\ Forall (wf_ty fuel) (gw_bounds w).

Lemma ng_where fuel w R : wf_where fuel w -> wstop R ->
  exists g, next_generic fuel (lex_where w ++ R) = Ok (Some g) R /\ to_where g = Some (exp_where w) /\ gkey g = lex (gw_ty w) /\
            (forall n, gw_ty w = GPath n [] [] -> g = GnType [TId n] None (map embed (gw_bounds w))).
Proof.
  intros (Hb & [Wt Dt] & Hc & Hne & Wb) HR. unfold lex_where. rewrite <- app_assoc. cbn [app].
  set (Y := sep_plus (map lex (gw_bounds w)) ++ R).
  assert (NT: next_type fuel (lex (gw_ty w) ++ TP PColon :: Y) = Ok (Some (embed (gw_ty w))) (TP PColon :: Y)).
  { apply (proj1 (all_wf_types _ Wt)); [exact Dt|]. subst Y. apply stop_colon_bounds. exact Hne. }
  assert (Len: List.length (gw_bounds w) <= S (List.length Y)).
  { subst Y. rewrite app_length. pose proof (length_sep_plus_ge lex (gw_bounds w) lex_nonempty). lia. }
  destruct (gw_ty w) as [s0 segs args|lt t|l tr|t len|a|] eqn:E; try discriminate.
  - (* a path: the Ident branch, later turned into a where bound *)
    exists (GnType (lex (GPath s0 segs args)) None (map embed (gw_bounds w))).
    split; [|split; [unfold exp_where; rewrite E; reflexivity|split; [reflexivity|intros n [= -> -> ->]; reflexivity]]].
    change (lex (GPath s0 segs args) ++ TP PColon :: Y) with (TId s0 :: (colons segs ++ match args with [] => [] | _ => TP PLt :: sep_comma (map lex args) ++ [TP PGt] end) ++ TP PColon :: Y) in *.
    cbn [next_generic]. rewrite Hc. change (TId s0 :: (colons segs ++ match args with [] => [] | _ => TP PLt :: sep_comma (map lex args) ++ [TP PGt] end) ++ TP PColon :: Y) with (lex (GPath s0 segs args) ++ TP PColon :: Y) in *.
    rewrite NT. cbn [expect bind]. subst Y. rewrite bounds_loop_ok; [|exact Hne|exact Len|exact Wb|apply wstop_stop; exact HR|apply wstop_noplus; exact HR].
    cbn [bind app]. rewrite (print_embed _ Wt).
    destruct R as [|[s|[]|l|[] ts] r]; cbn in HR; try contradiction; reflexivity.
  - (* a tuple: the Group branch *)
    exists (GnWhere (lex (GTuple l tr)) (map embed (gw_bounds w))).
    split; [|split; [unfold exp_where; rewrite E; reflexivity|split; [reflexivity|intros n; discriminate]]].
    change (lex (GTuple l tr) ++ TP PColon :: Y) with (TG Paren (sep_comma (map lex l) ++ (if tr then [TP PComma] else [])) :: TP PColon :: Y) in *.
    cbn [next_generic]. change (TG Paren (sep_comma (map lex l) ++ (if tr then [TP PComma] else [])) :: TP PColon :: Y) with (lex (GTuple l tr) ++ TP PColon :: Y) in *.
    rewrite NT. cbn [expect bind]. subst Y. rewrite bounds_while_ok; [|exact Hne|exact Len|exact Wb|apply wstop_stop; exact HR|apply wstop_noplus; exact HR].
    cbn [bind app]. rewrite (print_embed _ Wt). reflexivity.
  - (* an array *)
    exists (GnWhere (lex (GArray t len)) (map embed (gw_bounds w))).
    split; [|split; [unfold exp_where; rewrite E; reflexivity|split; [reflexivity|intros n; discriminate]]].
    assert (exists inner, lex (GArray t len) = [TG Bracket inner]) as [inner Ei] by (destruct len as [[n|s]|]; eexists; reflexivity).
    rewrite Ei in *. cbn [app next_generic] in *.
    rewrite NT. cbn [expect bind]. subst Y. rewrite bounds_while_ok; [|exact Hne|exact Len|exact Wb|apply wstop_stop; exact HR|apply wstop_noplus; exact HR].
    cbn [bind app]. rewrite <- Ei, (print_embed _ Wt). reflexivity.
Qed.

(* ---------- the two loops over generics ---------- *)
Lemma upsert_fresh ret g : ~ In (gkey g) (map gkey ret) -> upsert ret g = Some (ret ++ [g]).
Proof.
  induction ret as [|x r IH]; intros H; [reflexivity|]. cbn [upsert].
  rewrite tts_eqb_neq by (intros E; apply H; left; exact E). rewrite IH by (intros Hin; apply H; right; exact Hin). reflexivity.
Qed.
Lemma has_key_fresh ret g : ~ In (gkey g) (map gkey ret) -> has_key ret g = false.
Proof.
  unfold has_key. induction ret as [|x r IH]; intros H; [reflexivity|]. cbn [existsb].
  rewrite tts_eqb_neq by (intros E; apply H; left; exact E). apply IH. intros Hin. apply H. right. exact Hin.
Qed.
Lemma gkey_exp_param p : gkey (exp_param p) = param_key p. Proof. destruct p; reflexivity. Qed.
Lemma length_lex_param p : 1 <= List.length (lex_param p). Proof. destruct p; cbn; lia. Qed.
Lemma length_lex_where w : 1 <= List.length (lex_where w).
Proof. unfold lex_where. rewrite app_length. cbn. lia. Qed.

Lemma NoDup_app_head {A} (a: A) l1 l2 : NoDup (l1 ++ a :: l2) -> ~ In a l1 /\ NoDup ((l1 ++ [a]) ++ l2).
Proof.
  intros H. split.
  - apply NoDup_remove_2 in H. intros Hin. apply H. apply in_or_app. left. exact Hin.
  - rewrite <- app_assoc. exact H.
Qed.

Lemma NoDup_snoc {A} (l: list A) x : NoDup l -> ~ In x l -> NoDup (l ++ [x]).
Proof.
  induction l as [|a l IH]; intros ND H; [constructor; [intros []|constructor]|]. inversion ND as [|? ? Hn Hr]; subst. cbn. constructor.
  - intros Hin. apply in_app_or in Hin. destruct Hin as [Hin|[<-|[]]]; [apply Hn; exact Hin|apply H; left; reflexivity].
  - apply IH; [exact Hr|intros Hin; apply H; right; exact Hin].
Qed.
Lemma NoDup_app_l {A} (l1 l2: list A) : NoDup (l1 ++ l2) -> NoDup l1.
Proof.
  induction l1 as [|a l1 IH]; intros H; [constructor|]. inversion H as [|? ? Hn Hr]; subst. constructor.
  - intros Hin. apply Hn. apply in_or_app. left. exact Hin.
  - apply IH. exact Hr.
Qed.

Lemma loop1_ok fuel : forall ps k ret R, List.length ps < k -> Forall (wf_param fuel) ps -> NoDup (map gkey ret ++ map param_key ps) ->
  generics_loop1 fuel k ret (sep_comma (map lex_param ps) ++ TP PGt :: R) = Ok (ret ++ map exp_param ps) (TP PGt :: R).
Proof.
  induction ps as [|p ps IH]; intros k ret R Hk W ND; (destruct k as [|k]; [cbn in Hk; lia|]).
  - cbn. rewrite app_nil_r. reflexivity.
  - inversion W as [|? ? Wp Wr]; subst. cbn [map] in ND. destruct (NoDup_app_head _ _ _ ND) as [Hfresh ND'].
    assert (Up: upsert ret (exp_param p) = Some (ret ++ [exp_param p])) by (apply upsert_fresh; rewrite gkey_exp_param; exact Hfresh).
    destruct ps as [|q r].
    + cbn [map sep_comma generics_loop1]. rewrite (ng_param fuel p (TP PGt :: R) Wp I). cbn [bind]. rewrite Up. reflexivity.
    + rewrite sep_comma_two, <- app_assoc. cbn [app generics_loop1].
      erewrite (ng_param fuel p _ Wp); [|exact I]. cbn [bind]. rewrite Up.
      rewrite (IH k (ret ++ [exp_param p]) R); [|cbn in Hk |- *; lia|exact Wr|].
      * cbn [map]. rewrite <- app_assoc. reflexivity.
      * rewrite map_app. cbn [map]. rewrite gkey_exp_param. exact ND'.
Qed.

(* a where item either brings a new name, or names an existing TYPE parameter (whose bounds it extends) *)
Fixpoint where_ok (ret: list generic) (ws: list gwhere) : Prop :=
  match ws with
  | [] => True
  | w :: r => (~ In (lex (gw_ty w)) (map gkey ret) \/ (exists n d b, gw_ty w = GPath n [] [] /\ In (GnType [TId n] d b) ret)) /\ where_ok (exp_merge ret w) r
  end.

Lemma has_gkey_false ret k : ~ In k (map gkey ret) -> has_gkey ret k = false.
Proof.
  unfold has_gkey. induction ret as [|x r IH]; intros H; [reflexivity|]. cbn [existsb].
  rewrite tts_eqb_neq by (intros E; apply H; left; exact E). apply IH. intros Hin. apply H. right. exact Hin.
Qed.
Lemma has_gkey_true ret k : In k (map gkey ret) -> has_gkey ret k = true.
Proof.
  unfold has_gkey. intros H. apply existsb_exists. apply in_map_iff in H. destruct H as (g & <- & Hg). exists g. split; [exact Hg|apply tts_eqb_refl].
Qed.

Definition bump (k: list tt) (bs: list ty) (g: generic) : generic :=
  match g with GnType k' d b => if tts_eqb k' k then GnType k' d (b ++ bs) else g | _ => g end.
Lemma bump_key k bs g : gkey (bump k bs g) = gkey g.
Proof. destruct g as [n t d|n d b|n b|n b]; cbn; try reflexivity. destruct (tts_eqb n k); reflexivity. Qed.
Lemma bump_other k bs (r: list generic) : ~ In k (map gkey r) -> map (bump k bs) r = r.
Proof.
  induction r as [|x r IH]; intros H; [reflexivity|]. cbn [map]. rewrite IH by (intros Hin; apply H; right; exact Hin). f_equal.
  destruct x as [n t d|n d b|n b|n b]; cbn; try reflexivity. rewrite tts_eqb_neq; [reflexivity|]. intros E. apply H. left. exact E.
Qed.

(* upsert on a name that belongs to a type parameter extends that parameter's bounds and nothing else *)
Lemma upsert_type_merge : forall ret k d b bs d', NoDup (map gkey ret) -> In (GnType k d b) ret ->
  upsert ret (GnType k d' bs) = Some (map (bump k bs) ret).
Proof.
  induction ret as [|x r IH]; intros k d b bs d' ND Hin; [contradiction|]. cbn [map] in ND. inversion ND as [|? ? Hn Hr]; subst.
  cbn [upsert map gkey]. destruct Hin as [->|Hin].
  - cbn [gkey]. rewrite tts_eqb_refl. cbn [merge option_map bump]. rewrite tts_eqb_refl. rewrite bump_other by exact Hn. reflexivity.
  - assert (Hne: gkey x <> k).
    { intros E. apply Hn. rewrite E. apply in_map_iff. exists (GnType k d b). split; [reflexivity|exact Hin]. }
    rewrite (tts_eqb_neq _ _ Hne). rewrite (IH k d b bs d' Hr Hin). cbn [option_map]. f_equal. f_equal.
    destruct x as [n t dd|n dd bb|n bb|n bb]; cbn; try reflexivity. cbn in Hne. rewrite (tts_eqb_neq _ _ Hne). reflexivity.
Qed.

Lemma exp_merge_keys_nodup ret w : NoDup (map gkey ret) ->
  (~ In (lex (gw_ty w)) (map gkey ret) \/ (exists n d b, gw_ty w = GPath n [] [] /\ In (GnType [TId n] d b) ret)) -> NoDup (map gkey (exp_merge ret w)).
Proof.
  intros ND [Hf|(n & d & b & E & Hin)]; unfold exp_merge.
  - rewrite has_gkey_false by exact Hf. rewrite map_app. cbn [map gkey exp_where]. apply NoDup_snoc; assumption.
  - rewrite has_gkey_true by (rewrite E; apply in_map_iff; exists (GnType [TId n] d b); split; [reflexivity|exact Hin]).
    rewrite map_map. rewrite (map_ext _ gkey); [exact ND|]. intros g. apply (bump_key (lex (gw_ty w)) (map embed (gw_bounds w)) g).
Qed.

Lemma loop2_step fuel w ret R : wf_where fuel w -> wstop R -> NoDup (map gkey ret) ->
  (~ In (lex (gw_ty w)) (map gkey ret) \/ (exists n d b, gw_ty w = GPath n [] [] /\ In (GnType [TId n] d b) ret)) ->
  exists g, next_generic fuel (lex_where w ++ R) = Ok (Some g) R /\
            (if has_key ret g then upsert ret g else option_map (fun x => ret ++ [x]) (to_where g)) = Some (exp_merge ret w).
Proof.
  intros Ww HR ND Hc. destruct (ng_where fuel w R Ww HR) as (g & NG & TW & GK & GP). exists g. split; [exact NG|].
  unfold exp_merge. destruct Hc as [Hf|(n & d & b & E & Hin)].
  - rewrite has_key_fresh by (rewrite GK; exact Hf). rewrite has_gkey_false by exact Hf. rewrite TW. reflexivity.
  - assert (Hk: In (lex (gw_ty w)) (map gkey ret)) by (rewrite E; apply in_map_iff; exists (GnType [TId n] d b); split; [reflexivity|exact Hin]).
    rewrite has_gkey_true by exact Hk.
    rewrite (GP n E) in *. 
    assert (HK: has_key ret (GnType [TId n] None (map embed (gw_bounds w))) = true).
    { unfold has_key. apply existsb_exists. exists (GnType [TId n] d b). split; [exact Hin|apply tts_eqb_refl]. }
    rewrite HK. rewrite (upsert_type_merge ret [TId n] d b (map embed (gw_bounds w)) None ND Hin).
    rewrite E. reflexivity.
Qed.

Lemma loop2_ok fuel : forall ws k ret tr body R, List.length ws < k -> Forall (wf_where fuel) ws -> (tr = true -> ws <> []) ->
  NoDup (map gkey ret) -> where_ok ret ws ->
  generics_loop2 fuel k ret (sep_comma (map lex_where ws) ++ trail tr ++ TG Brace body :: R) = Ok (fold_left exp_merge ws ret) (TG Brace body :: R).
Proof.
  induction ws as [|w ws IH]; intros k ret tr body R Hk W Htr ND WO; (destruct k as [|k]; [cbn in Hk; lia|]).
  - destruct tr; [exfalso; apply Htr; reflexivity|]. cbn. reflexivity.
  - inversion W as [|? ? Ww Wr]; subst. cbn [where_ok] in WO. destruct WO as [Hc WO']. cbn [fold_left].
    pose proof (exp_merge_keys_nodup ret w ND Hc) as ND'.
    destruct ws as [|w2 r].
    + cbn [map sep_comma]. destruct tr; cbn [trail app].
      * destruct (loop2_step fuel w ret (TP PComma :: TG Brace body :: R) Ww I ND Hc) as (g & NG & UP).
        cbn [generics_loop2]. rewrite NG. cbn [bind]. rewrite UP.
        destruct k; [cbn in Hk; lia|]. cbn. reflexivity.
      * destruct (loop2_step fuel w ret (TG Brace body :: R) Ww I ND Hc) as (g & NG & UP).
        cbn [generics_loop2]. rewrite NG. cbn [bind]. rewrite UP. reflexivity.
    + rewrite sep_comma_two, <- !app_assoc. cbn [app].
      destruct (loop2_step fuel w ret (TP PComma :: sep_comma (map lex_where (w2 :: r)) ++ trail tr ++ TG Brace body :: R) Ww I ND Hc) as (g & NG & UP).
      cbn [generics_loop2]. rewrite NG. cbn [bind]. rewrite UP.
      apply (IH k (exp_merge ret w) tr body R); [cbn in Hk |- *; lia|exact Wr|intros _; discriminate|exact ND'|exact WO'].
Qed.

(* the simple sufficient condition: all names distinct *)
Lemma where_ok_fresh : forall ws ret, NoDup (map gkey ret ++ map (fun w => lex (gw_ty w)) ws) -> where_ok ret ws /\ fold_left exp_merge ws ret = ret ++ map exp_where ws.
Proof.
  induction ws as [|w ws IH]; intros ret ND; [split; [exact I|rewrite app_nil_r; reflexivity]|].
  cbn [map] in ND. destruct (NoDup_app_head _ _ _ ND) as [Hf ND']. cbn [where_ok fold_left].
  assert (E: exp_merge ret w = ret ++ [exp_where w]) by (unfold exp_merge; rewrite has_gkey_false by exact Hf; reflexivity).
  rewrite E. destruct (IH (ret ++ [exp_where w])) as [WO FL].
  { rewrite map_app. cbn [map gkey exp_where]. exact ND'. }
  split; [split; [left; exact Hf|exact WO]|]. rewrite FL, <- app_assoc. reflexivity.
Qed.

(* ---------- the generic parameter list with its where clause ---------- *)
Definition wf_generics (fuel: nat) (og: option ggenerics) : Prop :=
  match og with
  | None => True
  | Some gg => Forall (wf_param fuel) (gg_params gg) /\ NoDup (map param_key (gg_params gg)) /\
               match gg_where gg with None => True | Some (ws, tr) => Forall (wf_where fuel) ws /\ (tr = true -> ws <> []) /\ where_ok (map exp_param (gg_params gg)) ws end
  end.

Section WithDedup.
Variable dedup_ty : list ty -> list ty.
Variable dedup_lt : list string -> list string.

Lemma get_all_bounds_ok fuel og body R : wf_generics fuel og ->
  get_all_bounds dedup_ty dedup_lt fuel (lex_generics og ++ TG Brace body :: R) = Ok (exp_generics dedup_ty dedup_lt og) (TG Brace body :: R).
Proof.
  intros W. destruct og as [gg|]; [|reflexivity].
  destruct W as (Wp & ND & Ww). unfold lex_generics, exp_generics. cbn [app get_all_bounds].
  rewrite <- app_assoc. cbn [app].
  rewrite (loop1_ok fuel (gg_params gg) _ [] _); [| |exact Wp|cbn [map app]; exact ND].
  2:{ rewrite app_length. pose proof (length_sep_comma_ge lex_param (gg_params gg) length_lex_param). lia. }
  cbn [bind app]. destruct (gg_where gg) as [[ws tr]|].
  - destruct Ww as (Www & Htr & WO). cbn [app]. change ("where" =? "where") with true. cbn iota. rewrite <- app_assoc. fold (trail tr).
    rewrite (loop2_ok fuel ws _ (map exp_param (gg_params gg)) tr body R); [reflexivity| |exact Www|exact Htr| |exact WO].
    + rewrite !app_length. pose proof (length_sep_comma_ge lex_where ws length_lex_where). lia.
    + rewrite map_map. rewrite (map_ext _ param_key gkey_exp_param). exact ND.
  - reflexivity.
Qed.

(* ---------- the whole declaration ---------- *)
Definition wf_decl (fuel: nat) (d: gdecl) : Prop :=
  Forall wf_attr (d_attrs d) /\ wf_generics fuel (d_generics d) /\ Forall (wf_field fuel) (d_fields d) /\ (d_trailing d = true -> d_fields d <> []).

Lemma next_struct_ok fuel d : wf_decl fuel d ->
  next_struct dedup_ty dedup_lt fuel (TId (d_name d) :: lex_generics (d_generics d) ++ [TG Brace (lex_body (d_fields d) (d_trailing d))])
  = Ok {| s_name := Some (d_name d); s_named := true; s_fields := map exp_field (d_fields d); s_attrs := []; s_generics := exp_generics dedup_ty dedup_lt (d_generics d) |} [].
Proof.
  intros (Wa & Wg & Wf & Wt). unfold next_struct. rewrite (get_all_bounds_ok fuel (d_generics d) _ [] Wg). cbn [bind].
  rewrite fields_ok; [| |exact Wf|exact Wt].
  2:{ unfold lex_body. rewrite app_length. pose proof (length_sep_comma_ge lex_field (d_fields d)
        ltac:(intros a; unfold lex_field; rewrite !app_length; cbn; lia)). lia. }
  cbn [bind app]. rewrite map_map. reflexivity.
Qed.

Theorem struct_parse_complete fuel d : wf_decl fuel d -> parse_data dedup_ty dedup_lt fuel (lexd d) = Ok (DStruct (expected dedup_ty dedup_lt d)) [].
Proof.
  intros W. pose proof (next_struct_ok fuel d W) as NS. destruct W as (Wa & Wg & Wf & Wt). unfold parse_data, lexd.
  rewrite attrs_list_ok; [| |exact Wa|destruct (d_pub d); exact I].
  2:{ rewrite app_length. pose proof (length_flat_attrs (d_attrs d)). lia. }
  cbn [bind].
  remember (next_struct dedup_ty dedup_lt fuel) as NSf eqn:E.
  destruct (d_pub d); cbn; rewrite NS; reflexivity.
Qed.
End WithDedup.
Print Assumptions struct_parse_complete.

(* ---------- enums ---------- *)
Definition nocomma (r: list tt) : Prop := match r with TP PComma :: _ => False | TP PSemi :: _ => False | _ => True end.
Definition wf_vbody (fuel: nat) (b: gvbody) : Prop :=
  match b with
  | VUnit => 1 <= fuel
  | VTuple l tr => wf (GTuple l tr) /\ depth (GTuple l tr) < fuel
  | VStruct fs tr => (exists f, fuel = S f /\ Forall (wf_field f) fs) /\ (tr = true -> fs <> [])
  end.
Definition wf_variant (fuel: nat) (v: gvariant) : Prop := Forall wf_attr (gv_attrs v) /\ wf_vbody fuel (gv_body v).

Lemma lex_variant_head v more : nopunct (TId (gv_name v) :: lex_vbody (gv_body v) ++ more). Proof. exact I. Qed.

Lemma variant_step fuel k v acc more : wf_variant fuel v -> (more = [] \/ exists r, more = TP PComma :: r /\ nocomma r) ->
  variants_loop fuel (S k) acc (lex_variant v ++ more) =
  variants_loop fuel k (acc ++ [exp_variant v]) (match more with TP PComma :: r => r | _ => more end).
Proof.
  intros (Wa & Wb) Hm. cbn [variants_loop]. unfold lex_variant. rewrite <- app_assoc. cbn [app].
  destruct (flat_map lex_attr (gv_attrs v) ++ TId (gv_name v) :: lex_vbody (gv_body v) ++ more) as [|t0 s0] eqn:E.
  { exfalso. destruct (flat_map lex_attr (gv_attrs v)); cbn in E; discriminate. }
  rewrite <- E. clear E t0 s0.
  rewrite attrs_list_ok; [| |exact Wa|exact I].
  2:{ rewrite !app_length. pose proof (length_flat_attrs (gv_attrs v)). cbn [List.length]. lia. }
  cbn [bind app]. unfold exp_variant.
  destruct (gv_body v) as [|l tr|fs tr]; cbn [lex_vbody exp_vbody app] in *.
  - (* unit variant *)
    destruct Hm as [->|(r & -> & Hr)].
    + reflexivity.
    + destruct fuel as [|f]; [cbn in Wb; lia|]. cbn [next_type bind].
      destruct r as [|[s|[]|l|d ts] r]; cbn in Hr; try contradiction; reflexivity.
  - (* tuple-like variant *)
    destruct Wb as [Wt Dt].
    assert (Hs: stop more) by (destruct Hm as [->|(r & -> & _)]; exact I).
    assert (NE: exists t0 s0, lex (GTuple l tr) ++ more = t0 :: s0) by (cbn [lex app]; eexists; eexists; reflexivity).
    destruct NE as (t0 & s0 & NE). rewrite NE. rewrite <- NE. clear NE t0 s0.
    rewrite (proj1 (all_wf_types (GTuple l tr) Wt) fuel more Dt Hs). cbn [bind].
    destruct Hm as [->|(r & -> & Hr)]; reflexivity.
  - (* struct-like variant *)
    destruct Wb as [(f & -> & Wf) Htr].
    cbn [next_type ref_prefix bind after_ref]. fold (fields_loop f (S (List.length (lex_body fs tr))) true [] (lex_body fs tr)).
    rewrite fields_ok; [| |exact Wf|exact Htr].
    2:{ unfold lex_body. rewrite app_length. pose proof (length_sep_comma_ge lex_field fs
          ltac:(intros a; unfold lex_field; rewrite !app_length; cbn; lia)). lia. }
    cbn [bind app]. destruct Hm as [->|(r & -> & Hr)]; reflexivity.
Qed.

Lemma nocomma_variants v2 (r: list gvariant) tr : nocomma (sep_comma (map lex_variant (v2 :: r)) ++ trail tr).
Proof.
  assert (H: forall X, nocomma (lex_variant v2 ++ X)).
  { intros X. unfold lex_variant. destruct (gv_attrs v2) as [|a0 as0]; cbn [flat_map app]; [exact I|]. destruct a0; exact I. }
  destruct r as [|v3 r]; [cbn [map sep_comma]; apply H|]. rewrite sep_comma_two, <- app_assoc. apply H.
Qed.

Lemma variants_ok fuel : forall vs k acc tr, List.length vs < k -> Forall (wf_variant fuel) vs -> (tr = true -> vs <> []) ->
  variants_loop fuel k acc (sep_comma (map lex_variant vs) ++ trail tr) = Ok (acc ++ map exp_variant vs) [].
Proof.
  induction vs as [|v vs IH]; intros k acc tr Hk W Htr.
  - destruct tr; [exfalso; apply Htr; reflexivity|]. destruct k; [cbn in Hk; lia|]. cbn. rewrite app_nil_r. reflexivity.
  - inversion W as [|? ? Wv Wr]; subst. destruct k as [|k]; [cbn in Hk; lia|]. destruct vs as [|v2 r].
    + cbn [map sep_comma]. destruct tr; cbn [trail].
      * rewrite (variant_step fuel k v acc [TP PComma] Wv); [|right; exists []; split; [reflexivity|exact I]].
        destruct k; [cbn in Hk; lia|]. cbn. reflexivity.
      * rewrite app_nil_r. rewrite <- (app_nil_r (lex_variant v)). rewrite (variant_step fuel k v acc [] Wv); [|left; reflexivity].
        destruct k; [cbn in Hk; lia|]. cbn. reflexivity.
    + rewrite sep_comma_two, <- app_assoc. cbn [app].
      rewrite (variant_step fuel k v acc _ Wv).
      2:{ right. eexists. split; [reflexivity|]. apply nocomma_variants. }
      rewrite (IH k (acc ++ [exp_variant v]) tr); [|cbn in Hk |- *; lia|exact Wr|intros _; discriminate].
      cbn [map]. rewrite <- app_assoc. reflexivity.
Qed.

Section WithDedupEnum.
Variable dedup_ty : list ty -> list ty.
Variable dedup_lt : list string -> list string.
Definition wf_enum (fuel: nat) (e: genum) : Prop :=
  Forall wf_attr (en_attrs e) /\ wf_generics fuel (en_generics e) /\ Forall (wf_variant fuel) (en_variants e) /\ (en_trailing e = true -> en_variants e <> []).

Lemma next_enum_ok fuel e : wf_enum fuel e ->
  next_enum dedup_ty dedup_lt fuel (TId (en_name e) :: lex_generics (en_generics e) ++ [TG Brace (sep_comma (map lex_variant (en_variants e)) ++ trail (en_trailing e))])
  = Ok (expected_enum dedup_ty dedup_lt e) [].
Proof.
  intros (Wa & Wg & Wv & Wt). unfold next_enum. rewrite (get_all_bounds_ok dedup_ty dedup_lt fuel (en_generics e) _ [] Wg). cbn [bind].
  rewrite variants_ok; [reflexivity| |exact Wv|exact Wt].
  rewrite app_length. pose proof (length_sep_comma_ge lex_variant (en_variants e)
    ltac:(intros a; unfold lex_variant; rewrite !app_length; cbn; lia)). lia.
Qed.

(* every well-formed enum declaration - unit, tuple-like and struct-like variants with their attributes, with or without the last comma -
   is parsed to exactly the expected structure *)
Theorem enum_parse_complete fuel e : wf_enum fuel e -> parse_data dedup_ty dedup_lt fuel (lexe e) = Ok (DEnum (expected_enum dedup_ty dedup_lt e)) [].
Proof.
  intros W. pose proof (next_enum_ok fuel e W) as NE. destruct W as (Wa & Wg & Wv & Wt). unfold parse_data, lexe.
  rewrite attrs_list_ok; [| |exact Wa|destruct (en_pub e); exact I].
  2:{ rewrite app_length. pose proof (length_flat_attrs (en_attrs e)). lia. }
  cbn [bind]. fold (trail (en_trailing e)).
  remember (next_enum dedup_ty dedup_lt fuel) as NEf eqn:E.
  destruct (en_pub e); cbn; rewrite NE; reflexivity.
Qed.
End WithDedupEnum.
Print Assumptions enum_parse_complete.

(* finding D16, as it was: without the end-of-body check the last unit variant of `enum E { A, B }` gets the empty unnamed type
   (next_type on the empty stream, ParseProof.nt_empty_ok) and is then matched as a tuple-like variant by the templates *)
Fixpoint variants_loop_old (fuel k: nat) (acc: list field) (s: list tt) : res (list field) :=
  match k with 0 => Fuel | S k' =>
  match s with
  | [] => Ok acc []
  | _ =>
    bind (attrs_list (S (List.length s)) [] s) (fun attrs s1 =>
      match s1 with
      | TId vname :: s2 =>
          bind (next_type fuel s2) (fun o s3 =>
            match o with
            | None =>
                let s4 := match s3 with TP PComma :: r => r | _ => s3 end in
                variants_loop_old fuel k' (acc ++ [{| f_attrs := attrs; f_name := Some vname; f_ty := Ty CNone None None None |}]) s4
            | Some t =>
                let s4 := match s3 with TP PSemi :: r => r | _ => s3 end in
                let s5 := match s4 with TP PComma :: r => r | _ => s4 end in
                variants_loop_old fuel k' (acc ++ [{| f_attrs := attrs; f_name := Some vname; f_ty := t |}]) s5
            end)
      | _ => Panic
      end)
  end end.
Example last_unit_variant_old_refuted :
  variants_loop_old 5 5 [] [TId "A"; TP PComma; TId "B"]
  = Ok [ {| f_attrs := []; f_name := Some "A"; f_ty := Ty CNone None None None |}; {| f_attrs := []; f_name := Some "B"; f_ty := unnamed |} ] []
  /\ variants_loop 5 5 [] [TId "A"; TP PComma; TId "B"]
  = Ok [ {| f_attrs := []; f_name := Some "A"; f_ty := Ty CNone None None None |}; {| f_attrs := []; f_name := Some "B"; f_ty := Ty CNone None None None |} ] [].
Proof. split; reflexivity. Qed.
