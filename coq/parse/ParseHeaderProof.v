From Coq Require Import List Arith Lia Bool String.
Import ListNotations.
Require Import P.ParseModel P.ParseGrammar P.ParseProof P.ParsePrintModel P.ParsePrint P.ParseDecl P.ParseDeclGrammar P.ParseDeclProof P.ParseInterp P.ParseInterpProof P.ParseUsed P.ParseUsedProof P.ParseHeader.
Local Open Scope string_scope. Local Open Scope list_scope.

Lemma opt_eqb_refl {A} (f: A -> A -> bool) (o: option A) : (forall x, f x x = true) -> opt_eqb f o o = true.
Proof. intros H. destruct o; cbn; auto. Qed.
Lemma list_eqb_refl {A} (f: A -> A -> bool) (l: list A) : (forall x, f x x = true) -> list_eqb f l l = true.
Proof. intros H. induction l as [|x l IH]; cbn; [reflexivity|]. rewrite H, IH. reflexivity. Qed.
Lemma lit_eqb_refl l : lit_eqb l l = true. Proof. destruct l; cbn; [apply Nat.eqb_refl|apply String.eqb_refl]. Qed.
Lemma atok_eqb_refl a : atok_eqb a a = true. Proof. destruct a; cbn; [apply String.eqb_refl|apply lit_eqb_refl]. Qed.

Fixpoint ty_eqb_refl (t: ty) : ty_eqb t t = true
with cat_eqb_refl (c: cat) : cat_eqb c c = true
with cvt_eqb_refl (v: cvt) : cvt_eqb v v = true.
Proof.
  - destruct t as [c w rt ao]. cbn [ty_eqb]. rewrite (cat_eqb_refl c). cbn [andb].
    assert (Hw: match w with None => true | Some l => (fix go (x y: list ty) : bool := match x, y with [] , [] => true | p :: x', q :: y' => ty_eqb p q && go x' y' | _, _ => false end) l l end = true).
    { destruct w as [l|]; [|reflexivity].
 revert l.
 fix IHl 1.
 intros [|a l'];
 [reflexivity|].
 rewrite (ty_eqb_refl a).
 cbn [andb].
 apply IHl. }
    destruct w as [l|]; [rewrite Hw|]; cbn [andb];
      (rewrite (opt_eqb_refl (opt_eqb String.eqb) rt) by (intros x; apply opt_eqb_refl; apply String.eqb_refl)); cbn [andb];
      (destruct ao as [x|]; [apply (ty_eqb_refl x)|reflexivity]).
  - destruct c as [|t len|l|p|s| |fs|]; cbn [cat_eqb]; try reflexivity.
    + rewrite (ty_eqb_refl t). cbn [andb]. destruct len as [v|]; [apply (cvt_eqb_refl v)|reflexivity].
    + revert l. fix IHl 1. intros [|a l']; [reflexivity|]. rewrite (ty_eqb_refl a). cbn [andb]. apply IHl.
    + apply list_eqb_refl. apply String.eqb_refl.
    + apply String.eqb_refl.
    + revert fs. fix IHl 1. intros [|[[a n] t] l']; [reflexivity|].
      rewrite (list_eqb_refl (list_eqb atok_eqb) a) by (intros x; apply list_eqb_refl; apply atok_eqb_refl).
      rewrite (opt_eqb_refl String.eqb n) by apply String.eqb_refl. rewrite (ty_eqb_refl t). cbn [andb]. apply IHl.
  - destruct v as [n|t]; cbn [cvt_eqb]; [apply Nat.eqb_refl|apply (ty_eqb_refl t)].
Qed.

Lemma gen_eqb_refl g : gen_eqb g g = true.
Proof.
  destruct g as [n t d|n d b|n b|n b]; cbn [gen_eqb].
  - rewrite String.eqb_refl, ty_eqb_refl. cbn [andb]. apply opt_eqb_refl. exact cvt_eqb_refl.
  - rewrite tts_eqb_refl. cbn [andb]. rewrite (opt_eqb_refl ty_eqb d ty_eqb_refl). cbn [andb]. apply list_eqb_refl. exact ty_eqb_refl.
  - rewrite String.eqb_refl. cbn [andb]. apply list_eqb_refl. exact String.eqb_refl.
  - rewrite tts_eqb_refl. cbn [andb]. apply list_eqb_refl. exact ty_eqb_refl.
Qed.
Lemma gen_eqb_key a b : gen_eqb a b = true -> gkey a = gkey b.
Proof.
  destruct a as [n t d|n d b0|n b0|n b0], b as [n' t' d'|n' d' b'|n' b'|n' b']; cbn [gen_eqb gkey]; intros H; try discriminate;
    repeat (apply andb_true_iff in H; destruct H as [H ?]).
  - apply String.eqb_eq in H. congruence.
  - apply tts_eqb_eq in H. exact H.
  - apply String.eqb_eq in H. congruence.
  - apply tts_eqb_eq in H. exact H.
Qed.

(* ---------- used_generics: with distinct names, exactly the declared entries whose NAME some unskipped field type mentions ---------- *)
Definition key_used (tys: list ty) (k: list tt) : bool :=
  existsb (fun t => names_tok k (own_path t) || existsb (fun w => names_tok k w) (wraps_list t)
                    || existsb (fun a => tts_eqb k [TId a]) (used_lifetimes t) || existsb (fun v => tts_eqb k v) (array_lens t)) tys.

Lemma find_key_unique (gens: list generic) x : NoDup (map gkey gens) -> In x gens -> find (fun y => tts_eqb (gkey y) (gkey x)) gens = Some x.
Proof.
  induction gens as [|y r IH]; intros ND Hin; [contradiction|]. cbn [map] in ND. inversion ND as [|? ? Hn Hr]; subst. cbn [find].
  destruct Hin as [->|Hin]; [rewrite tts_eqb_refl; reflexivity|].
  rewrite tts_eqb_neq; [apply IH; assumption|]. intros E. apply Hn. rewrite E. apply in_map. exact Hin.
Qed.
Lemma find_gen_in gens k y : In y (find_gen gens k) -> In y gens /\ tts_eqb (gkey y) k = true.
Proof.
  unfold find_gen. destruct (find _ gens) as [z|] eqn:E; [|contradiction]. intros [<-|[]]. apply find_some in E. exact E.
Qed.
Lemma used_of_type_in gens t y : In y (used_of_type gens t) -> In y gens /\ key_used [t] (gkey y) = true.
Proof.
  unfold used_of_type, key_used. cbn [existsb]. rewrite orb_false_r. rewrite !in_app_iff. intros [H|[H|[H|H]]].
  - apply filter_In in H. destruct H as [Hi He]. split; [exact Hi|]. rewrite He. reflexivity.
  - apply filter_In in H. destruct H as [Hi He]. split; [exact Hi|]. rewrite He. rewrite !orb_true_r. reflexivity.
  - apply in_flat_map in H. destruct H as (a & Ha & Hy). apply find_gen_in in Hy. destruct Hy as [Hi He]. split; [exact Hi|].
    assert (E: existsb (fun a0 => tts_eqb (gkey y) [TId a0]) (used_lifetimes t) = true) by (apply existsb_exists; exists a; split; assumption).
    rewrite E. rewrite !orb_true_r. reflexivity.
  - apply in_flat_map in H. destruct H as (v & Hv & Hy). apply find_gen_in in Hy. destruct Hy as [Hi He]. split; [exact Hi|].
    assert (E: existsb (fun v0 => tts_eqb (gkey y) v0) (array_lens t) = true) by (apply existsb_exists; exists v; split; assumption).
    rewrite E. rewrite !orb_true_r. reflexivity.
Qed.
Lemma key_used_one tys k : key_used tys k = existsb (fun t => key_used [t] k) tys.
Proof. unfold key_used. induction tys as [|t r IH]; [reflexivity|]. cbn [existsb]. rewrite IH, orb_false_r. reflexivity. Qed.
Lemma raw_in gens tys y : In y (flat_map (used_of_type gens) tys) -> In y gens /\ key_used tys (gkey y) = true.
Proof.
  intros H. apply in_flat_map in H. destruct H as (t & Ht & Hy). apply used_of_type_in in Hy. destruct Hy as [Hi Hk]. split; [exact Hi|].
  rewrite key_used_one. apply existsb_exists. exists t. split; assumption.
Qed.
Lemma in_raw gens tys x : NoDup (map gkey gens) -> In x gens -> key_used tys (gkey x) = true -> In x (flat_map (used_of_type gens) tys).
Proof.
  intros ND Hin H. unfold key_used in H. apply existsb_exists in H. destruct H as (t & Ht & H). apply in_flat_map. exists t. split; [exact Ht|].
  unfold used_of_type. rewrite !in_app_iff. rewrite !orb_true_iff in H. destruct H as [[[H|H]|H]|H].
  - left. apply filter_In. split; assumption.
  - right. left. apply filter_In. split; assumption.
  - right. right. left. apply existsb_exists in H. destruct H as (a & Ha & He). apply in_flat_map. exists a. split; [exact Ha|].
    apply tts_eqb_eq in He. unfold find_gen. rewrite <- He. rewrite (find_key_unique gens x ND Hin). left. reflexivity.
  - right. right. right. apply existsb_exists in H. destruct H as (v & Hv & He). apply in_flat_map. exists v. split; [exact Hv|].
    apply tts_eqb_eq in He. unfold find_gen. rewrite <- He. rewrite (find_key_unique gens x ND Hin). left. reflexivity.
Qed.
Lemma contains_iff gens tys x : NoDup (map gkey gens) -> In x gens ->
  existsb (gen_eqb x) (flat_map (used_of_type gens) tys) = key_used tys (gkey x).
Proof.
  intros ND Hin. destruct (key_used tys (gkey x)) eqn:K.
  - apply existsb_exists. exists x. split; [apply in_raw; assumption|apply gen_eqb_refl].
  - destruct (existsb _ _) eqn:E; [|reflexivity]. apply existsb_exists in E. destruct E as (e & He & Hq).
    apply raw_in in He. destruct He as [_ Hk]. apply gen_eqb_key in Hq. rewrite <- Hq in Hk. congruence.
Qed.
Lemma used_pass_filter raw : forall gens seen, NoDup (map gkey gens) -> (forall k, In k seen -> ~ In k (map gkey gens)) ->
  used_pass raw seen gens = filter (fun x => existsb (gen_eqb x) raw) gens.
Proof.
  induction gens as [|x r IH]; intros seen ND Hs; [reflexivity|]. cbn [map] in ND. inversion ND as [|? ? Hn Hr]; subst. cbn [used_pass filter].
  assert (E: existsb (tts_eqb (gkey x)) seen = false).
  { destruct (existsb _ seen) eqn:E; [|reflexivity]. apply existsb_exists in E. destruct E as (k & Hk & He). apply tts_eqb_eq in He. subst k.
    exfalso. apply (Hs _ Hk). left. reflexivity. }
  rewrite E. rewrite (IH (gkey x :: seen) Hr).
  - destruct (existsb (gen_eqb x) raw); reflexivity.
  - intros k [<-|Hk]; [exact Hn|]. intros Hin. apply (Hs k Hk). right. exact Hin.
Qed.
Theorem used_generics_filter gens tys : NoDup (map gkey gens) -> used_generics gens tys = filter (fun x => key_used tys (gkey x)) gens.
Proof.
  intros ND. unfold used_generics. rewrite (used_pass_filter _ gens [] ND) by (intros k []).
  apply filter_ext_in. intros x Hin. apply contains_iff; assumption.
Qed.

(* ---------- the parameter lists of the impl headers: the declared parameters, in declaration order ---------- *)
Definition params_of (og: option ggenerics) : list gparam := match og with None => [] | Some gg => gg_params gg end.
(* how a parameter is declared in a generated `impl<..>` (bounds and defaults dropped; a const parameter keeps its type) and how it is named as an argument *)
Definition param_decl (p: gparam) : list tt :=
  match p with PLife a _ => quote a | PType n _ _ => [TId n] | PConst n t _ => [TId "const"; TId n; TP PColon] ++ lex t end.
Definition param_arg (p: gparam) : list tt := match p with PLife a _ => quote a | PType n _ _ => [TId n] | PConst n _ _ => [TId n] end.

Section Generics.
Variable dedup_ty : list ty -> list ty.
Variable dedup_lt : list string -> list string.

Definition same_head (a b: generic) : Prop :=
  ident_only a = ident_only b /\ ident_with_const a = ident_with_const b /\ is_where a = is_where b /\ is_const a = is_const b /\ is_life a = is_life b /\ gkey a = gkey b.
Lemma same_head_dedup x : same_head (dedup_g dedup_ty dedup_lt x) x.
Proof. destruct x; cbn; repeat split. Qed.
Lemma same_head_bump k bs x : same_head (bump k bs x) x.
Proof. destruct x as [n t d|n d b|n b|n b]; cbn; repeat split. all: destruct (tts_eqb n k); repeat split. Qed.

Lemma filter_map_comm {A B} (p: B -> bool) (f: A -> B) l : filter p (map f l) = map f (filter (fun x => p (f x)) l).
Proof. induction l as [|x l IH]; [reflexivity|]. cbn. destruct (p (f x)); cbn; rewrite IH; reflexivity. Qed.

Lemma no_where_map f (l: list generic) : (forall x, same_head (f x) x) ->
  map ident_only (no_where (map f l)) = map ident_only (no_where l) /\ map ident_with_const (no_where (map f l)) = map ident_with_const (no_where l).
Proof.
  intros H. unfold no_where. rewrite filter_map_comm. rewrite !map_map.
  rewrite (filter_ext (fun x => negb (is_where (f x))) (fun x => negb (is_where x))) by (intros x; destruct (H x) as (_ & _ & -> & _); reflexivity).
  split; apply map_ext; intros x; destruct (H x) as (A & B & _); assumption.
Qed.
Lemma exp_merge_eq gens w : exp_merge gens w =
  if has_gkey gens (lex (gw_ty w)) then map (bump (lex (gw_ty w)) (map embed (gw_bounds w))) gens else gens ++ [exp_where w].
Proof. unfold exp_merge. destruct (has_gkey gens _); [|reflexivity]. apply map_ext. intros [n t d|n d b|n b|n b]; reflexivity. Qed.
Lemma no_where_merge : forall ws base,
  map ident_only (no_where (fold_left exp_merge ws base)) = map ident_only (no_where base) /\
  map ident_with_const (no_where (fold_left exp_merge ws base)) = map ident_with_const (no_where base).
Proof.
  induction ws as [|w ws IH]; intros base; [split; reflexivity|]. cbn [fold_left]. destruct (IH (exp_merge base w)) as [A B]. rewrite A, B.
  rewrite exp_merge_eq. destruct (has_gkey base _).
  - apply no_where_map. intros x. apply same_head_bump.
  - unfold no_where. rewrite filter_app. cbn. rewrite !app_nil_r. split; reflexivity.
Qed.
Lemma param_heads fuel ps : Forall (wf_param fuel) ps ->
  map ident_only (no_where (map exp_param ps)) = map param_arg ps /\ map ident_with_const (no_where (map exp_param ps)) = map param_decl ps.
Proof.
  intros W. assert (E: no_where (map exp_param ps) = map exp_param ps).
  { unfold no_where. induction ps as [|p r IH]; [reflexivity|]. cbn [map filter]. inversion W; subst. destruct p; cbn; rewrite IH by assumption; reflexivity. }
  rewrite E, !map_map. split; apply map_ext_in; intros p Hp.
  - destruct p; reflexivity.
  - destruct p as [a bs|n bs d|n t d]; try reflexivity.
    rewrite Forall_forall in W. specialize (W _ Hp). destruct W as ((Wt & _) & _).
    cbn. unfold full_with_const. cbn. rewrite (print_embed t Wt). reflexivity.
Qed.
Theorem generic_heads fuel og : wf_generics fuel og ->
  map ident_only (no_where (exp_generics dedup_ty dedup_lt og)) = map param_arg (params_of og) /\
  map ident_with_const (no_where (exp_generics dedup_ty dedup_lt og)) = map param_decl (params_of og).
Proof.
  destruct og as [gg|]; [|intros _; split; reflexivity]. intros (Wp & ND & Ww). cbn [exp_generics params_of].
  destruct (gg_where gg) as [[ws tr]|]; [|apply (param_heads fuel); exact Wp].
  destruct (no_where_map (dedup_g dedup_ty dedup_lt) (fold_left exp_merge ws (map exp_param (gg_params gg))) same_head_dedup) as [A B]. rewrite A, B.
  destruct (no_where_merge ws (map exp_param (gg_params gg))) as [C D]. rewrite C, D. apply (param_heads fuel). exact Wp.
Qed.
End Generics.

(* ---------- the where clauses of the impl headers: every requirement the declaration states is repeated ---------- *)
(* a requirement: (subject, bound), both as written *)
Definition param_reqs (p: gparam) : list (list tt * list tt) :=
  match p with PLife a bs => map (fun b => (quote a, quote b)) bs | PType n bs _ => map (fun b => ([TId n], lex b)) bs | PConst _ _ _ => [] end.
Definition where_reqs (w: gwhere) : list (list tt * list tt) := map (fun b => (lex (gw_ty w), lex b)) (gw_bounds w).
Definition reqs (og: option ggenerics) : list (list tt * list tt) :=
  match og with
  | None => []
  | Some gg => flat_map param_reqs (gg_params gg) ++ match gg_where gg with None => [] | Some (ws, _) => flat_map where_reqs ws end
  end.
Definition holds (gens: list generic) (r: list tt * list tt) : Prop :=
  exists x, In x gens /\ is_const x = false /\ ident_only x = fst r /\ In (snd r) (get_bounds x).

Lemma holds_params fuel ps : Forall (wf_param fuel) ps -> forall r, In r (flat_map param_reqs ps) -> holds (map exp_param ps) r.
Proof.
  intros W r Hr. apply in_flat_map in Hr. destruct Hr as (p & Hp & Hr). rewrite Forall_forall in W. specialize (W _ Hp).
  exists (exp_param p). split; [apply in_map; exact Hp|]. destruct p as [a bs|n bs d|n t d]; cbn [param_reqs] in Hr; [| |contradiction].
  - apply in_map_iff in Hr. destruct Hr as (b & <- & Hb). cbn. repeat split. apply in_map. exact Hb.
  - apply in_map_iff in Hr. destruct Hr as (b & <- & Hb). cbn. repeat split. rewrite map_map. apply in_map_iff. exists b. split; [|exact Hb].
    destruct W as (_ & _ & _ & Wb & _). rewrite Forall_forall in Wb. destruct (Wb _ Hb) as [Wt _]. apply print_embed. exact Wt.
Qed.
Lemma holds_bump k bs gens r : holds gens r -> holds (map (bump k bs) gens) r.
Proof.
  intros (x & Hin & Hc & Hs & Hb). exists (bump k bs x). split; [apply in_map; exact Hin|].
  destruct x as [n t d|n d b|n b|n b]; cbn in *; try (repeat split; assumption).
  destruct (tts_eqb n k); cbn; repeat split; try assumption. rewrite map_app. apply in_or_app. left. exact Hb.
Qed.
Lemma holds_app gens l r : holds gens r -> holds (gens ++ l) r.
Proof. intros (x & Hin & H). exists x. split; [apply in_or_app; left; exact Hin|exact H]. Qed.
Lemma holds_merge_pres gens w r : holds gens r -> holds (exp_merge gens w) r.
Proof. intros H. rewrite exp_merge_eq. destruct (has_gkey gens _); [apply holds_bump|apply holds_app]; exact H. Qed.
Lemma holds_merge_new fuel gens w : wf_where fuel w ->
  (~ In (lex (gw_ty w)) (map gkey gens) \/ (exists n d b, gw_ty w = GPath n [] [] /\ In (GnType [TId n] d b) gens)) ->
  forall r, In r (where_reqs w) -> holds (exp_merge gens w) r.
Proof.
  intros (_ & _ & _ & _ & Wb) Hk r Hr. unfold where_reqs in Hr. apply in_map_iff in Hr. destruct Hr as (b & <- & Hb).
  rewrite Forall_forall in Wb. destruct (Wb _ Hb) as [Wt _]. rewrite exp_merge_eq. destruct Hk as [Hf|(n & d & b0 & Ety & Hin)].
  - rewrite (has_gkey_false _ _ Hf). exists (exp_where w). split; [apply in_or_app; right; left; reflexivity|]. cbn. repeat split.
    rewrite map_map. apply in_map_iff. exists b. split; [apply print_embed; exact Wt|exact Hb].
  - assert (Hkey: In (lex (gw_ty w)) (map gkey gens)). { rewrite Ety. cbn. apply in_map_iff. exists (GnType [TId n] d b0). split; [reflexivity|exact Hin]. }
    rewrite (has_gkey_true _ _ Hkey). exists (bump (lex (gw_ty w)) (map embed (gw_bounds w)) (GnType [TId n] d b0)). split; [apply in_map; exact Hin|].
    rewrite Ety. cbn [lex colons flat_map app bump]. rewrite tts_eqb_refl. cbn. repeat split. rewrite map_app. apply in_or_app. right.
    rewrite map_map. apply in_map_iff. exists b. split; [apply print_embed; exact Wt|exact Hb].
Qed.
Lemma holds_fold fuel : forall ws gens (R0: list (list tt * list tt)), Forall (wf_where fuel) ws -> where_ok gens ws -> (forall r, In r R0 -> holds gens r) ->
  forall r, In r (R0 ++ flat_map where_reqs ws) -> holds (fold_left exp_merge ws gens) r.
Proof.
  induction ws as [|w ws IH]; intros gens R0 W WO H0 r Hr; [cbn in Hr; rewrite app_nil_r in Hr; apply H0; exact Hr|].
  inversion W as [|? ? Ww Wr]; subst. cbn [where_ok] in WO. destruct WO as [Hk WO']. cbn [fold_left].
  apply (IH (exp_merge gens w) (R0 ++ where_reqs w) Wr WO').
  - intros r' Hr'. apply in_app_or in Hr'. destruct Hr' as [Hr'|Hr']; [apply holds_merge_pres, H0; exact Hr'|apply (holds_merge_new fuel); assumption].
  - cbn [flat_map] in Hr. rewrite <- app_assoc. exact Hr.
Qed.

Section Cover.
Variable dedup_ty : list ty -> list ty.
Variable dedup_lt : list string -> list string.
(* what the HashSet pass may do: drop duplicates and reorder, nothing else *)
Hypothesis dedup_ty_mem : forall l x, In x (dedup_ty l) <-> In x l.
Hypothesis dedup_lt_mem : forall l x, In x (dedup_lt l) <-> In x l.
Lemma holds_dedup gens r : holds gens r -> holds (map (dedup_g dedup_ty dedup_lt) gens) r.
Proof.
  intros (x & Hin & Hc & Hs & Hb). exists (dedup_g dedup_ty dedup_lt x). split; [apply in_map; exact Hin|].
  destruct x as [n t d|n d b|n b|n b]; cbn in *; repeat split; try assumption.
  - apply in_map_iff in Hb. destruct Hb as (y & <- & Hy). apply in_map. apply dedup_ty_mem. exact Hy.
  - apply in_map_iff in Hb. destruct Hb as (y & <- & Hy). apply in_map. apply dedup_lt_mem. exact Hy.
  - apply in_map_iff in Hb. destruct Hb as (y & <- & Hy). apply in_map. apply dedup_ty_mem. exact Hy.
Qed.
Theorem generics_hold fuel og : wf_generics fuel og -> forall r, In r (reqs og) -> holds (exp_generics dedup_ty dedup_lt og) r.
Proof.
  destruct og as [gg|]; [|intros _ r []]. intros (Wp & ND & Ww) r Hr. cbn [reqs exp_generics] in *.
  destruct (gg_where gg) as [[ws tr]|].
  - destruct Ww as (Www & _ & WO). apply holds_dedup. apply (holds_fold fuel ws _ (flat_map param_reqs (gg_params gg)) Www WO); [|exact Hr].
    apply (holds_params fuel). exact Wp.
  - rewrite app_nil_r in Hr. apply (holds_params fuel); assumption.
Qed.
End Cover.

(* a where-clause predicate: subject `:` bounds joined by `+` *)
Definition pred_toks (p: list tt * list (list tt)) : list tt := fst p ++ TP PColon :: plus_join (snd p).
Definition bound_pred (c: hcfg) (x: generic) : list tt * list (list tt) :=
  (ident_only x, match x with GnLife _ _ => get_bounds x | _ => get_bounds x ++ BOUNDS c end).
Definition where_pred (x: generic) : list tt * list (list tt) := (ident_only x, get_bounds x).
Lemma fwc_bound c x : is_const x = false -> full_with_const x (BOUNDS c) [] true = pred_toks (bound_pred c x).
Proof. destruct x as [n t d|n d b|n b|n b]; intros H; try discriminate; unfold full_with_const, pred_toks, bound_pred; cbn; rewrite ?app_nil_r; reflexivity. Qed.
Lemma fwc_where x : is_where x = true -> full_with_const x [] [] true = pred_toks (where_pred x).
Proof. destruct x as [n t d|n d b|n b|n b]; intros H; try discriminate. unfold full_with_const, pred_toks, where_pred. cbn. rewrite ?app_nil_r. reflexivity. Qed.

(* the predicates of `impl StructDiff for S` (filtered: only parameters that have something to say) and of the setters / enum impl (all) *)
Definition impl_preds (c: hcfg) (filtered: bool) (gens: list generic) : list (list tt * list (list tt)) :=
  map (bound_pred c) (filter (fun x => negb filtered || has_where_bounds x false true) (no_where_const gens)) ++ map where_pred (filter is_where gens).
Lemma impl_where_toks c filtered gens :
  map (fun x => full_with_const x (BOUNDS c) [] true) (filter (fun x => negb filtered || has_where_bounds x false true) (no_where_const gens)) ++
  map (fun x => full_with_const x [] [] true) (filter is_where gens) = map pred_toks (impl_preds c filtered gens).
Proof.
  unfold impl_preds. rewrite map_app, !map_map. f_equal; apply map_ext_in; intros x Hx.
  - apply fwc_bound. apply filter_In in Hx. destruct Hx as [Hx _]. unfold no_where_const in Hx. apply filter_In in Hx. destruct Hx as [_ Hx].
    apply andb_true_iff in Hx. destruct Hx as [_ Hx]. destruct (is_const x); [discriminate|reflexivity].
  - apply fwc_where. apply filter_In in Hx. apply Hx.
Qed.
Lemma impl_preds_cover c filtered gens r : holds gens r -> exists p, In p (impl_preds c filtered gens) /\ fst p = fst r /\ In (snd r) (snd p).
Proof.
  intros (x & Hin & Hc & Hs & Hb). unfold impl_preds. destruct (is_where x) eqn:Ew.
  - exists (where_pred x). split; [apply in_or_app; right; apply in_map; apply filter_In; split; assumption|]. split; [exact Hs|exact Hb].
  - exists (bound_pred c x). split.
    + apply in_or_app. left. apply in_map. apply filter_In. split; [unfold no_where_const; apply filter_In; split; [exact Hin|rewrite Ew, Hc; reflexivity]|].
      destruct x as [n t d|n d b|n b|n b]; try discriminate; cbn in *; [rewrite !orb_true_r; reflexivity|].
      destruct b; [contradiction|]. cbn. rewrite orb_true_r. reflexivity.
    + split; [exact Hs|]. unfold bound_pred. cbn [snd]. destruct x; try exact Hb; apply in_or_app; left; exact Hb.
Qed.

(* ---------- the impl headers of the expansion ---------- *)
Definition impl_header (c: hcfg) (filtered: bool) (trait_for: list tt) (sname: string) (gens: list generic) : list tt :=
  TId "impl" :: angle (map ident_with_const (no_where gens)) ++ trait_for ++ [TId sname] ++ angle (map ident_only (no_where gens)) ++ TId "where" ::
  sep_comma (map (fun x => full_with_const x (BOUNDS c) [] true) (filter (fun x => negb filtered || has_where_bounds x false true) (no_where_const gens)) ++
             map (fun x => full_with_const x [] [] true) (filter is_where gens)).
Lemma filter_all {A} (l: list A) : filter (fun _ => true) l = l.
Proof. induction l as [|x l IH]; [reflexivity|]. cbn. rewrite IH. reflexivity. Qed.
Definition sname_of (s: strukt) : string := match s_name s with Some n => n | None => "Anonymous" end.
Lemma struct_headers_3 c gs s : nth_error (struct_headers c gs s) 3 = Some (impl_header c true [TId "StructDiff"; TId "for"] (sname_of s) (s_generics s)).
Proof. reflexivity. Qed.
Definition any_setter (s: strukt) : bool :=
  existsb (has_setter (attrs_all_setters (s_attrs s))) (filter (fun f => negb (attrs_skip (f_attrs f))) (s_fields s)).
Lemma struct_headers_6 c s : any_setter s = true -> nth_error (struct_headers c true s) 6 = Some (impl_header c false [] (sname_of s) (s_generics s)).
Proof.
  intros H. unfold struct_headers. unfold any_setter in H. cbn [andb]. rewrite H. unfold impl_header. cbn [negb orb]. rewrite filter_all. reflexivity.
Qed.
Lemma struct_headers_no_setters c gs s : gs && any_setter s = false -> List.length (struct_headers c gs s) = 6.
Proof. intros H. unfold struct_headers. unfold any_setter in H. rewrite H. reflexivity. Qed.
Lemma enum_headers_3 c e : nth_error (enum_headers c e) 3 = Some (impl_header c false [TId "StructDiff"; TId "for"] (e_name e) (e_generics e)).
Proof. unfold enum_headers, impl_header. cbn [nth_error negb orb]. rewrite filter_all. reflexivity. Qed.

Section Final.
Variable dedup_ty : list ty -> list ty.
Variable dedup_lt : list string -> list string.
Hypothesis dedup_ty_mem : forall l x, In x (dedup_ty l) <-> In x l.
Hypothesis dedup_lt_mem : forall l x, In x (dedup_lt l) <-> In x l.

(* the shape every generated impl header has: the declared parameters in declaration order (bounds and defaults dropped, a const
   parameter with its type), the type applied to exactly these, and a where clause that repeats every requirement of the declaration *)
Definition good_impl_header (h: list tt) (trait_for: list tt) (name: string) (og: option ggenerics) : Prop :=
  exists P, h = TId "impl" :: angle (map param_decl (params_of og)) ++ trait_for ++ [TId name] ++ angle (map param_arg (params_of og)) ++
                TId "where" :: sep_comma (map pred_toks P) /\
            forall r, In r (reqs og) -> exists p, In p P /\ fst p = fst r /\ In (snd r) (snd p).
Lemma impl_header_good fuel c filtered trait_for name og : wf_generics fuel og ->
  good_impl_header (impl_header c filtered trait_for name (exp_generics dedup_ty dedup_lt og)) trait_for name og.
Proof.
  intros W. exists (impl_preds c filtered (exp_generics dedup_ty dedup_lt og)). split.
  - unfold impl_header. destruct (generic_heads dedup_ty dedup_lt fuel og W) as [A B]. rewrite A, B. rewrite impl_where_toks. reflexivity.
  - intros r Hr. apply impl_preds_cover. apply (generics_hold dedup_ty dedup_lt dedup_ty_mem dedup_lt_mem fuel og W r Hr).
Qed.

Theorem struct_impl_headers_good fuel c gs d : wf_decl fuel d ->
  let hs := struct_headers c gs (expected dedup_ty dedup_lt d) in
  (exists h, nth_error hs 3 = Some h /\ good_impl_header h [TId "StructDiff"; TId "for"] (d_name d) (d_generics d)) /\
  (gs && any_setter (expected dedup_ty dedup_lt d) = true -> exists h, nth_error hs 6 = Some h /\ good_impl_header h [] (d_name d) (d_generics d)) /\
  (gs && any_setter (expected dedup_ty dedup_lt d) = false -> List.length hs = 6).
Proof.
  intros (_ & Wg & _) hs. split; [|split].
  - eexists. split; [apply struct_headers_3|]. apply (impl_header_good fuel). exact Wg.
  - intros H. apply andb_true_iff in H. destruct H as [-> H]. eexists. split; [apply struct_headers_6; exact H|]. apply (impl_header_good fuel). exact Wg.
  - apply struct_headers_no_setters.
Qed.
Theorem enum_impl_header_good fuel c e : wf_enum fuel e ->
  exists h, nth_error (enum_headers c (expected_enum dedup_ty dedup_lt e)) 3 = Some h /\ good_impl_header h [TId "StructDiff"; TId "for"] (en_name e) (en_generics e).
Proof. intros (_ & Wg & _). eexists. split; [apply enum_headers_3|]. apply (impl_header_good fuel). exact Wg. Qed.
End Final.

(* ---------- which parameters the diff enums of a struct declare ---------- *)
Lemma keys_bump k bs l : map gkey (map (bump k bs) l) = map gkey l.
Proof. rewrite map_map. apply map_ext. intros x. apply bump_key. Qed.
Lemma fold_merge_nodup : forall ws gens, NoDup (map gkey gens) -> where_ok gens ws -> NoDup (map gkey (fold_left exp_merge ws gens)).
Proof.
  induction ws as [|w ws IH]; intros gens ND WO; [exact ND|]. cbn [where_ok] in WO. destruct WO as [Hk WO']. cbn [fold_left].
  apply IH; [apply exp_merge_keys_nodup; assumption|exact WO'].
Qed.
Section Used.
Variable dedup_ty : list ty -> list ty.
Variable dedup_lt : list string -> list string.
Lemma exp_generics_nodup fuel og : wf_generics fuel og -> NoDup (map gkey (exp_generics dedup_ty dedup_lt og)).
Proof.
  destruct og as [gg|]; [|intros _; constructor]. intros (Wp & ND & Ww). cbn [exp_generics].
  assert (ND0: NoDup (map gkey (map exp_param (gg_params gg)))) by (rewrite map_map, (map_ext _ param_key gkey_exp_param); exact ND).
  destruct (gg_where gg) as [[ws tr]|]; [|exact ND0]. destruct Ww as (_ & _ & WO).
  rewrite map_map. rewrite (map_ext (fun x => gkey (dedup_g dedup_ty dedup_lt x)) gkey) by (intros [n t d|n d b|n b|n b]; reflexivity).
  apply fold_merge_nodup; assumption.
Qed.

(* the fields the templates look at, and their parsed types *)
Definition unskipped (d: gdecl) : list gfield := filter (fun f => negb (attrs_skip (exp_attrs (gf_attrs f)))) (d_fields d).
Definition field_types (d: gdecl) : list ty := map (fun f => embed (gf_ty f)) (unskipped d).
Definition diff_enum_params (d: gdecl) : list generic :=
  no_where (used_generics (s_generics (expected dedup_ty dedup_lt d)) (map f_ty (filter (fun f => negb (attrs_skip (f_attrs f))) (s_fields (expected dedup_ty dedup_lt d))))).
Lemma expected_field_types d : map f_ty (filter (fun f => negb (attrs_skip (f_attrs f))) (s_fields (expected dedup_ty dedup_lt d))) = field_types d.
Proof.
  unfold field_types, unskipped. cbn [expected s_fields]. rewrite filter_map_comm. rewrite map_map. reflexivity.
Qed.
Theorem diff_enum_params_exact fuel d : wf_decl fuel d ->
  diff_enum_params d = filter (fun x => key_used (field_types d) (gkey x)) (no_where (exp_generics dedup_ty dedup_lt (d_generics d))).
Proof.
  intros (_ & Wg & _). unfold diff_enum_params. rewrite expected_field_types. cbn [expected s_generics].
  rewrite used_generics_filter by (apply (exp_generics_nodup fuel); exact Wg). unfold no_where.
  set (p := fun x => key_used (field_types d) (gkey x)). set (q := fun x => negb (is_where x)). set (l := exp_generics dedup_ty dedup_lt (d_generics d)).
  clearbody l. induction l as [|x l IH]; [reflexivity|]. cbn [filter]. destruct (p x) eqn:Ep, (q x) eqn:Eq; cbn [filter]; rewrite ?Ep, ?Eq, IH; reflexivity.
Qed.

(* in terms of what the user wrote: a declared parameter that an unskipped field type mentions - a type parameter in the sense of
   param_used_exact, a lifetime anywhere, a const parameter as an array length - is declared by the diff enums *)
Definition mentions (p: gparam) (t: g) : Prop :=
  match p with PLife a _ => In a (lifetimes_of t) | PType n _ _ => used_spec n t = true | PConst n _ _ => In [TId n] (lens_of t) end.
Lemma existsb_ext' {A} (f g: A -> bool) (H: forall x, f x = g x) l : existsb f l = existsb g l.
Proof. induction l as [|x l IH]; [reflexivity|]. cbn. rewrite H, IH. reflexivity. Qed.
Lemma is_name_tts n toks : is_name n toks = names_tok [TId n] toks.
Proof.
  destruct toks as [|[x|p|l|dl ts] r]; try reflexivity. cbn [is_name names_tok tt_eqb]. rewrite (String.eqb_sym x n).
  destruct r as [|[y|[]|l|dl ts] r']; cbn [names_tok]; rewrite ?andb_true_r, ?andb_false_r; try reflexivity.
  destruct r' as [|[y|[]|l|dl ts] r'']; cbn [names_tok]; rewrite ?andb_true_r, ?andb_false_r; reflexivity.
Qed.
Lemma key_used_mentions fuel p f (d: gdecl) : wf_field fuel f -> In f (unskipped d) -> mentions p (gf_ty f) -> key_used (field_types d) (param_key p) = true.
Proof.
  intros (_ & _ & Wt & _) Hf Hm. unfold key_used. apply existsb_exists. exists (embed (gf_ty f)). split; [unfold field_types; apply (in_map (fun f => embed (gf_ty f))); exact Hf|].
  destruct p as [a bs|n bs dd|n t dd]; cbn [param_key mentions] in *.
  - assert (E: existsb (fun a0 => tts_eqb [TId a] [TId a0]) (used_lifetimes (embed (gf_ty f))) = true).
    { apply existsb_exists. exists a. split; [rewrite (used_lifetimes_exact _ Wt); exact Hm|apply tts_eqb_refl]. }
    rewrite E. rewrite !orb_true_r. reflexivity.
  - rewrite <- (param_used_exact n _ Wt) in Hm. unfold param_used in Hm. rewrite is_name_tts in Hm. unfold own_path.
    rewrite (existsb_ext' (is_name n) (fun w => names_tok [TId n] w) (is_name_tts n)) in Hm. rewrite Hm. reflexivity.
  - assert (E: existsb (fun v => tts_eqb [TId n] v) (array_lens (embed (gf_ty f))) = true).
    { apply existsb_exists. exists [TId n]. split; [rewrite (array_lens_exact _ Wt); exact Hm|apply tts_eqb_refl]. }
    rewrite E. rewrite !orb_true_r. reflexivity.
Qed.
Theorem mentioned_params_declared fuel d p f : wf_decl fuel d -> In p (params_of (d_generics d)) -> In f (unskipped d) -> mentions p (gf_ty f) ->
  In (param_arg p) (map ident_only (diff_enum_params d)).
Proof.
  intros W Hp Hf Hm. pose proof W as (_ & Wg & Wf & _). rewrite (diff_enum_params_exact fuel d W).
  assert (Wff: wf_field fuel f). { rewrite Forall_forall in Wf. apply Wf. unfold unskipped in Hf. apply filter_In in Hf. apply Hf. }
  pose proof (key_used_mentions fuel p f d Wff Hf Hm) as K.
  (* the parsed entry of p: same key, same argument spelling, still in the list after merging and de-duplication *)
  assert (Hx: exists x, In x (no_where (exp_generics dedup_ty dedup_lt (d_generics d))) /\ gkey x = param_key p /\ ident_only x = param_arg p).
  { destruct (d_generics d) as [gg|] eqn:Eg; [|contradiction]. cbn [params_of] in Hp. destruct Wg as (Wp & ND & Ww). cbn [exp_generics].
    assert (B: forall l, In (exp_param p) l -> exists x, In x (no_where l) /\ gkey x = param_key p /\ ident_only x = param_arg p).
    { intros l Hl. exists (exp_param p). split; [unfold no_where; apply filter_In; split; [exact Hl|destruct p; reflexivity]|]. split; [apply gkey_exp_param|destruct p; reflexivity]. }
    assert (M: forall f0 l, (forall y, same_head (f0 y) y) -> (exists x, In x (no_where l) /\ gkey x = param_key p /\ ident_only x = param_arg p) ->
               exists x, In x (no_where (map f0 l)) /\ gkey x = param_key p /\ ident_only x = param_arg p).
    { intros f0 l Hs (x & Hin & Hk & Hi). exists (f0 x). destruct (Hs x) as (A1 & _ & A3 & _ & _ & A6). unfold no_where in *. apply filter_In in Hin. destruct Hin as [Hin Hw].
      split; [apply filter_In; split; [apply in_map; exact Hin|rewrite A3; exact Hw]|]. split; congruence. }
    destruct (gg_where gg) as [[ws tr]|]; [|apply B; apply in_map; exact Hp].
    apply M; [intros y; apply same_head_dedup|].
    assert (F: forall ws0 l, (exists x, In x (no_where l) /\ gkey x = param_key p /\ ident_only x = param_arg p) ->
               exists x, In x (no_where (fold_left exp_merge ws0 l)) /\ gkey x = param_key p /\ ident_only x = param_arg p).
    { induction ws0 as [|w ws0 IH]; intros l H; [exact H|]. cbn [fold_left]. apply IH. rewrite exp_merge_eq. destruct (has_gkey l _).
      - apply M; [intros y; apply same_head_bump|exact H].
      - destruct H as (x & Hin & H). exists x. split; [unfold no_where in *; rewrite filter_app; apply in_or_app; left; exact Hin|exact H]. }
    apply F. apply B. apply in_map. exact Hp. }
  destruct Hx as (x & Hin & Hk & Hi). rewrite <- Hi. apply in_map. apply filter_In. split; [exact Hin|]. rewrite Hk. exact K.
Qed.
End Used.

(* ---------- every use of the diff enums of a struct applies them to exactly the parameters they declare ---------- *)
Section Uses.
Variable dedup_ty : list ty -> list ty.
Variable dedup_lt : list string -> list string.
Theorem diff_enum_uses_consistent c gs d :
  let st := expected dedup_ty dedup_lt d in
  let hs := struct_headers c gs st in
  let U := diff_enum_params dedup_ty dedup_lt d in
  let E := diff_enum_name (attrs_expose (s_attrs st)) (d_name d) in
  let TL := target_lifetime (filter (fun f => negb (attrs_skip (f_attrs f))) (s_fields st)) in
  (exists pre w, nth_error hs 0 = Some (pre ++ [TId "pub"; TId "enum"; TId E] ++ angle (map ident_with_const U) ++ TId "where" :: w)) /\
  (exists pre w, nth_error hs 1 = Some (pre ++ [TId "pub"; TId "enum"; TId (E ++ "Ref")] ++ angle (TL ++ map ident_with_const U) ++ TId "where" :: w)) /\
  (exists w, nth_error hs 2 = Some (TId "impl" :: angle (TL ++ map ident_with_const U) ++ [TId "Into"; TP PLt; TId E] ++ angle (map ident_only U) ++
                                      [TP PGt; TId "for"; TId (E ++ "Ref")] ++ angle (TL ++ map ident_only U) ++ TId "where" :: w)) /\
  nth_error hs 4 = Some ([TId "type"; TId "Diff"; TP PEq; TId E] ++ angle (map ident_only U)) /\
  (exists w, nth_error hs 5 = Some ([TId "type"; TId "DiffRef"; TP PLt] ++ lt_target ++ [TP PGt; TP PEq; TId (E ++ "Ref")] ++ angle (TL ++ map ident_only U) ++ TId "where" :: w)).
Proof.
  intros st hs U E TL. set (used := used_generics (s_generics st) (map f_ty (filter (fun f => negb (attrs_skip (f_attrs f))) (s_fields st)))).
  split; [|split; [|split; [|split]]].
  - exists (allow_attr ++ attr_tt "derive" (sep_comma (owned_derives c)) ++ serde_bound c used). eexists. unfold hs, struct_headers. cbn [nth_error app].
    rewrite <- !app_assoc. reflexivity.
  - exists (allow_attr ++ attr_tt "derive" (sep_comma (ref_derives c))). eexists. unfold hs, struct_headers. cbn [nth_error app]. rewrite <- !app_assoc. reflexivity.
  - eexists. unfold hs, struct_headers. cbn [nth_error app]. reflexivity.
  - reflexivity.
  - eexists. unfold hs, struct_headers. cbn [nth_error app]. reflexivity.
Qed.
End Uses.

(* ---------- the two known gaps of the struct templates, as the model shows them ---------- *)
Definition path1 (n: string) : g := GPath n [] [].
Definition plain_field (n: string) (t: g) : gfield := {| gf_attrs := []; gf_vis := VPub; gf_name := n; gf_ty := t |}.
(* D21: struct D<T> where Vec<T>: Needed { a: Needs<T> } *)
Definition d21_decl : gdecl :=
  {| d_attrs := []; d_pub := true; d_name := "D";
     d_generics := Some {| gg_params := [PType "T" [] None]; gg_where := Some ([ {| gw_ty := GPath "Vec" [] [path1 "T"]; gw_bounds := [path1 "Needed"] |} ], false) |};
     d_fields := [plain_field "a" (GPath "Needs" [] [path1 "T"])]; d_trailing := false |}.
(* D19: struct D<T, U: Into<T>> { x: U, #[difference(skip)] y: PhantomData<T> } *)
Definition d19_decl : gdecl :=
  {| d_attrs := []; d_pub := true; d_name := "D";
     d_generics := Some {| gg_params := [PType "T" [] None; PType "U" [GPath "Into" [] [path1 "T"]] None]; gg_where := None |};
     d_fields := [plain_field "x" (path1 "U"); {| gf_attrs := [GADiff [IFlag "skip"] false]; gf_vis := VPub; gf_name := "y"; gf_ty := GPath "PhantomData" [] [path1 "T"] |}];
     d_trailing := false |}.
Definition cfg0 : hcfg := {| h_dbg := false; h_ns := false; h_sd := false |}.
Definition clone_eq : list tt := pth ["core"; "clone"; "Clone"] ++ TP PPlus :: pth ["core"; "cmp"; "PartialEq"].
(* the struct needs `Vec<T>: Needed` (it is in reqs, and the impl header repeats it), the owned diff enum does not state it *)
Example d21_where_item_not_on_the_enum :
  In (lex (GPath "Vec" [] [path1 "T"]), lex (path1 "Needed")) (reqs (d_generics d21_decl)) /\
  nth_error (struct_headers cfg0 false (expected (fun x => x) (fun x => x) d21_decl)) 0 =
    Some (allow_attr ++ attr_tt "derive" [TId "Clone"] ++ [TId "pub"; TId "enum"; TId "__DStructDiffEnum"; TP PLt; TId "T"; TP PGt; TId "where"; TId "T"; TP PColon] ++ clone_eq).
Proof. split; [left; reflexivity|vm_compute; reflexivity]. Qed.
(* the owned diff enum declares U only, and its where clause mentions T *)
Example d19_bound_mentions_undeclared :
  nth_error (struct_headers cfg0 false (expected (fun x => x) (fun x => x) d19_decl)) 0 =
    Some (allow_attr ++ attr_tt "derive" [TId "Clone"] ++ [TId "pub"; TId "enum"; TId "__DStructDiffEnum"; TP PLt; TId "U"; TP PGt; TId "where"; TId "U"; TP PColon;
          TId "Into"; TP PLt; TId "T"; TP PGt; TP PPlus] ++ clone_eq).
Proof. vm_compute. reflexivity. Qed.
