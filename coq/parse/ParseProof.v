From Coq Require Import List Arith Lia Bool String.
Import ListNotations.
Require Import P.ParseModel P.ParseGrammar.
Local Open Scope string_scope. Local Open Scope list_scope.

Definition is_base (t: g) : bool := match t with GPath _ _ _ | GTuple _ _ | GArray _ _ => true | _ => false end.
Fixpoint wf (t: g) : Prop :=
  match t with
  | GPath s0 segs args => is_kw s0 = false /\ (fix all (l: list g) : Prop := match l with [] => True | x :: r => wf x /\ all r end) args
  | GRef _ t => is_base t = true /\ wf t                       (* `&&T`, `&!` are not parsed as one type *)
  | GTuple l tr => (tr = true -> l <> []) /\ (fix all (l: list g) : Prop := match l with [] => True | x :: r => wf x /\ all r end) l
  | GArray t len => wf t /\ match len with Some (LName s) => is_kw s = false | _ => True end
  | GLt _ | GNever => True
  end.
Definition wf_all (l: list g) : Prop := (fix all (l: list g) : Prop := match l with [] => True | x :: r => wf x /\ all r end) l.
Lemma wf_all_Forall l : wf_all l <-> Forall wf l.
Proof. induction l as [|x l IH]; cbn; [split; [constructor|tauto]|]. rewrite IH. split; [intros [A B]; constructor; assumption|intros H; inversion H; auto]. Qed.

(* what may follow a type in the places the parser is called from *)
(* what may follow a type: anything but `<` (read as generic arguments), `::` (read as a path continuation) and the keyword `as`;
   in particular `,` `>` `;` (inside types), `+` `=` `:` `{..}` `where` (generic parameter lists and where clauses) and the end of the stream *)
Definition stop (rest: list tt) : Prop :=
  match rest with
  | TP PLt :: _ => False
  | TP PColon :: TP PColon :: _ => False
  | TId s :: _ => (s =? "as") = false
  | _ => True
  end.

Fixpoint depth (t: g) : nat :=
  match t with
  | GPath _ _ args => S (fold_right (fun a m => Nat.max (depth a) m) 0 args)
  | GRef _ t => depth t
  | GTuple l _ => S (fold_right (fun a m => Nat.max (depth a) m) 0 l)
  | GArray t _ => S (depth t)
  | GLt _ | GNever => 1
  end.
Definition maxdepth (l: list g) := fold_right (fun a m => Nat.max (depth a) m) 0 l.

Section Ind.
Variable P : g -> Prop.
Hypothesis HPath : forall s0 segs args, Forall P args -> P (GPath s0 segs args).
Hypothesis HRef : forall lt t, P t -> P (GRef lt t).
Hypothesis HTuple : forall l tr, Forall P l -> P (GTuple l tr).
Hypothesis HArr : forall t len, P t -> P (GArray t len).
Hypothesis HLt : forall a, P (GLt a).
Hypothesis HNever : P GNever.
Fixpoint g_ind2 (t: g) : P t :=
  match t with
  | GPath s0 segs args => HPath s0 segs args ((fix go (l: list g) : Forall P l := match l with [] => Forall_nil _ | x :: r => Forall_cons _ (g_ind2 x) (go r) end) args)
  | GRef lt t => HRef lt t (g_ind2 t)
  | GTuple l tr => HTuple l tr ((fix go (l: list g) : Forall P l := match l with [] => Forall_nil _ | x :: r => Forall_cons _ (g_ind2 x) (go r) end) l)
  | GArray t len => HArr t len (g_ind2 t)
  | GLt a => HLt a
  | GNever => HNever
  end.
End Ind.

Definition set_rt (rt: option (option string)) (t: ty) : ty := match t with Ty i w _ a => Ty i w rt a end.

Lemma path_loop_ok segs : forall k acc rest, List.length segs < k ->
  match rest with TP PColon :: TP PColon :: _ => False | _ => True end ->
  path_loop k acc (colons segs ++ rest) = Ok (acc ++ segs) rest.
Proof.
  induction segs as [|s segs IH]; intros k acc rest Hk Hr.
  - cbn [colons flat_map app]. rewrite app_nil_r. destruct k; [cbn in Hk; lia|]. cbn [path_loop].
    destruct rest as [|[s|[]|n|dl ts] rest]; try reflexivity. destruct rest as [|[s|[]|n|dl ts] rest]; try reflexivity. contradiction.
  - destruct k; [cbn in Hk; lia|]. cbn [colons flat_map app path_loop]. fold (colons segs). rewrite IH; [|cbn in Hk; lia|exact Hr].
    rewrite <- app_assoc. reflexivity.
Qed.

(* sep_comma as "first, then comma-prefixed others" *)
Lemma sep_comma_cons x (r: list (list tt)) : sep_comma (x :: r) = x ++ flat_map (fun y => TP PComma :: y) r.
Proof.
  revert x. induction r as [|y r IH]; intros x; [cbn; rewrite app_nil_r; reflexivity|].
  change (sep_comma (x :: y :: r)) with (x ++ TP PComma :: sep_comma (y :: r)). rewrite IH. reflexivity.
Qed.

(* the statement proved by induction: at any fuel above the nesting depth, in any legal context *)
Definition parses (t: g) : Prop := forall fuel rest, depth t < fuel -> stop rest -> next_type fuel (lex t ++ rest) = Ok (Some (embed t)) rest.
Definition body_parses (t: g) : Prop := forall f rt rest, depth t <= f -> stop rest ->
  after_ref (next_type f) rt (lex t ++ rest) = Ok (Some (set_rt rt (embed t))) rest.

Lemma stop_not_colons rest : stop rest -> match rest with TP PColon :: TP PColon :: _ => False | _ => True end.
Proof. destruct rest as [|[s|[]|n|dl ts] rest]; cbn; try tauto. Qed.

Lemma lex_nonempty t : 1 <= List.length (lex t).
Proof. destruct t as [s0 segs args|[a|] t|l tr|t [[n|s]|]|a|]; cbn; try lia; rewrite ?app_length; cbn; lia. Qed.

Section LoopLemmas.
Variable nt : list tt -> res (option ty).
Hypothesis nt_empty : nt [] = Ok (Some unnamed) [].

(* a type of the grammar never starts like a const argument *)
Lemma garg_lex a R : garg nt (lex a ++ R) = nt (lex a ++ R).
Proof. destruct a as [s0 segs args|[a0|] t|l tr|t [[n|s]|]|a0|]; reflexivity. Qed.
Lemma gen_loop_ok (args: list g) : forall k acc rest,
  Forall (fun a => forall R, stop R -> nt (lex a ++ R) = Ok (Some (embed a)) R) args ->
  List.length args < k ->
  gen_loop nt k acc (flat_map (fun a => TP PComma :: lex a) args ++ TP PGt :: rest) = Ok (acc ++ map embed args) (TP PGt :: rest).
Proof.
  induction args as [|a args IH]; intros k acc rest Hall Hk; (destruct k; [cbn in Hk; lia|]).
  - cbn. rewrite app_nil_r. reflexivity.
  - inversion Hall as [|? ? Ha Hr]; subst. cbn [flat_map app gen_loop]. rewrite <- app_assoc.
    rewrite garg_lex. rewrite Ha; [|destruct args; cbn; exact I]. cbn [expect bind]. rewrite IH; [|exact Hr|cbn in Hk; lia].
    rewrite <- app_assoc. reflexivity.
Qed.

Lemma tuple_loop_ok (r: list g) : forall x k acc (tr: bool),
  Forall (fun a => forall R, stop R -> nt (lex a ++ R) = Ok (Some (embed a)) R) (x :: r) ->
  List.length r + 2 <= k ->
  tuple_loop nt k acc (lex x ++ flat_map (fun y => TP PComma :: lex y) r ++ (if tr then [TP PComma] else []))
  = Ok (acc ++ embed x :: map embed r ++ (if tr then [unnamed] else [])) [].
Proof.
  induction r as [|y r IH]; intros x k acc tr Hall Hk; inversion Hall as [|? ? Hx Hr]; subst.
  - destruct k as [|[|k]]; [cbn in Hk; lia|cbn in Hk; lia|]. cbn [flat_map app]. cbn [tuple_loop].
    destruct tr.
    + rewrite Hx by exact I. cbn [bind]. cbn [tuple_loop]. rewrite nt_empty. cbn [bind]. rewrite <- app_assoc. reflexivity.
    + rewrite app_nil_r. rewrite <- (app_nil_r (lex x)). rewrite Hx by exact I. cbn [bind]. reflexivity.
  - destruct k; [cbn in Hk; lia|]. cbn [flat_map app tuple_loop]. rewrite <- !app_assoc. cbn [app].
    rewrite Hx by exact I. cbn [bind]. rewrite (IH y k (acc ++ [embed x]) tr Hr); [|cbn in Hk; lia].
    rewrite <- app_assoc. reflexivity.
Qed.
End LoopLemmas.

Lemma nt_empty_ok f : next_type (S f) [] = Ok (Some unnamed) [].
Proof. reflexivity. Qed.
Lemma kw_nonempty s : is_kw s = false -> (s =? "") = false.
Proof. unfold is_kw. intros H. destruct (s =? ""); [discriminate H|reflexivity]. Qed.
Lemma path_nonempty s0 segs : is_kw s0 = false -> path_empty ((s0 :: nil) ++ segs) = false.
Proof. intros H. cbn [app]. destruct segs; cbn [path_empty]; [apply kw_nonempty; exact H|reflexivity]. Qed.
Lemma nt_ident f s : is_kw s = false -> next_type (S f) [TId s] = Ok (Some (Ty (CNamed [s]) None None None)) [].
Proof. intros H. cbn [next_type ref_prefix bind after_ref]. rewrite H. cbn [path_loop List.length bind path_empty]. rewrite (kw_nonempty s H). reflexivity. Qed.

Lemma length_colons segs : List.length (colons segs) = 3 * List.length segs.
Proof. induction segs as [|s segs IH]; [reflexivity|]. cbn [colons flat_map app List.length]. fold (colons segs). rewrite IH. lia. Qed.
Lemma length_flat_comma (l: list g) : List.length l <= List.length (flat_map (fun a => TP PComma :: lex a) l).
Proof. induction l as [|a l IH]; cbn; [lia|]. rewrite app_length. lia. Qed.
Lemma maxdepth_in (l: list g) a : In a l -> depth a <= maxdepth l.
Proof. induction l as [|x l IH]; intros H; [contradiction|]. cbn. destruct H as [->|H]; [lia|]. specialize (IH H). unfold maxdepth in IH. lia. Qed.

(* one body lemma per base form, given the induction hypotheses for the sub-terms at the lower fuel *)
Lemma args_ready f (l: list g) : maxdepth l < f -> Forall parses l ->
  Forall (fun a => forall R, stop R -> next_type f (lex a ++ R) = Ok (Some (embed a)) R) l.
Proof.
  intros Hd Hall. apply Forall_forall. intros a Ha R HR. rewrite Forall_forall in Hall. apply (Hall a Ha); [|exact HR].
  pose proof (maxdepth_in l a Ha). lia.
Qed.

Lemma body_path s0 segs args : is_kw s0 = false -> Forall parses args -> body_parses (GPath s0 segs args).
Proof.
  intros Hkw Hall f rt rest Hd Hs. cbn [depth] in Hd. fold (maxdepth args) in Hd.
  cbn [lex app]. unfold after_ref. rewrite Hkw.
  set (X := match args with [] => [] | _ :: _ => TP PLt :: sep_comma (map lex args) ++ [TP PGt] end ++ rest).
  replace ((colons segs ++ match args with [] => [] | _ :: _ => TP PLt :: sep_comma (map lex args) ++ [TP PGt] end) ++ rest) with (colons segs ++ X) by (subst X; rewrite app_assoc; reflexivity).
  rewrite path_loop_ok; [|rewrite app_length, length_colons; lia|].
  2:{ subst X. destruct args; cbn [app]; [apply stop_not_colons; exact Hs|exact I]. }
  cbn [bind]. rewrite (path_nonempty s0 segs Hkw). cbn [app]. subst X. destruct args as [|a r].
  - cbn [app]. destruct rest as [|[s|p|n|dl ts] r]; [reflexivity|cbn in Hs; rewrite Hs; reflexivity| |reflexivity|reflexivity].
    destruct p; try reflexivity. contradiction.
  - cbn [app map]. rewrite sep_comma_cons. rewrite <- !app_assoc. cbn [app].
    destruct f as [|f]; [lia|].
    assert (Hd': maxdepth (a :: r) < S f) by lia.
    pose proof (args_ready (S f) (a :: r) Hd' Hall) as Rdy. inversion Rdy as [|? ? Ha Hr]; subst.
    rewrite flat_map_concat_map, map_map, <- flat_map_concat_map.
    rewrite garg_lex. rewrite Ha; [|destruct r; cbn; exact I]. cbn [expect bind].
    rewrite (gen_loop_ok (next_type (S f)) r); [|exact Hr|rewrite app_length; pose proof (length_flat_comma r); lia].
    cbn [bind app map]. reflexivity.
Qed.

Lemma length_sep_comma (l: list g) : List.length l <= List.length (sep_comma (map lex l)).
Proof.
  destruct l as [|x r]; [cbn; lia|]. cbn [map]. rewrite sep_comma_cons, app_length, flat_map_concat_map, map_map, <- flat_map_concat_map.
  pose proof (lex_nonempty x). pose proof (length_flat_comma r). cbn [List.length]. lia.
Qed.

Lemma body_tuple l tr : (tr = true -> l <> []) -> Forall parses l -> body_parses (GTuple l tr).
Proof.
  intros Htr Hall f rt rest Hd Hs. cbn [depth] in Hd. fold (maxdepth l) in Hd.
  cbn [lex app]. unfold after_ref. destruct f as [|f]; [lia|].
  destruct l as [|x r].
  - destruct tr; [exfalso; apply Htr; reflexivity|]. cbn [map sep_comma app List.length tuple_loop]. rewrite nt_empty_ok. reflexivity.
  - assert (Hd': maxdepth (x :: r) < S f) by lia.
    pose proof (args_ready (S f) (x :: r) Hd' Hall) as Rdy.
    cbn [map]. rewrite sep_comma_cons, flat_map_concat_map, map_map, <- flat_map_concat_map. rewrite <- app_assoc.
    rewrite (tuple_loop_ok (next_type (S f)) (nt_empty_ok f) r x _ [] tr Rdy).
    + cbn [bind app embed map orb]. rewrite orb_false_r. reflexivity.
    + rewrite !app_length. pose proof (lex_nonempty x). pose proof (length_flat_comma r). lia.
Qed.

Lemma body_array t len : parses t -> match len with Some (LName s) => is_kw s = false | _ => True end -> body_parses (GArray t len).
Proof.
  intros Ht Hlen f rt rest Hd Hs. cbn [depth] in Hd. destruct f as [|f]; [lia|].
  unfold after_ref. destruct len as [[n|s]|]; cbn [lex app].
  - rewrite Ht; [|lia|exact I]. reflexivity.
  - rewrite Ht; [|lia|exact I]. cbn [expect bind]. rewrite (nt_ident f s Hlen). reflexivity.
  - rewrite <- (app_nil_r (lex t)). rewrite Ht; [|lia|exact I]. reflexivity.
Qed.

Lemma base_head t rest : is_base t = true -> match lex t ++ rest with TP PComma :: _ | TP PBang :: _ | TP PQuote :: _ | TP PAmp :: _ => False | _ => True end.
Proof. destruct t as [s0 segs args|lt t|l tr|t [[n|s]|]|a|]; cbn; try discriminate; auto. Qed.

Lemma set_rt_base t : is_base t = true -> set_rt None (embed t) = embed t.
Proof. destruct t; cbn; try discriminate; reflexivity. Qed.

Lemma body_to_parse t : is_base t = true -> body_parses t -> parses t.
Proof.
  intros Hb Hbody fuel rest Hd Hs. destruct fuel as [|f]; [lia|]. cbn [next_type].
  pose proof (base_head t rest Hb) as Hh. specialize (Hbody f None rest ltac:(lia) Hs). rewrite (set_rt_base t Hb) in Hbody.
  destruct (lex t ++ rest) as [|[s|p|n|dl ts] r] eqn:E.
  - cbn [ref_prefix bind]. rewrite Hbody. reflexivity.
  - cbn [ref_prefix bind]. rewrite Hbody. reflexivity.
  - destruct p; try contradiction; cbn [ref_prefix bind]; rewrite Hbody; reflexivity.
  - cbn [ref_prefix bind]. rewrite Hbody. reflexivity.
  - cbn [ref_prefix bind]. rewrite Hbody. reflexivity.
Qed.

Lemma embed_ref lt t : embed (GRef lt t) = set_rt (Some lt) (embed t).
Proof. cbn. destruct (embed t); reflexivity. Qed.

Lemma ref_parse lt t : is_base t = true -> body_parses t -> parses (GRef lt t).
Proof.
  intros Hb Hbody fuel rest Hd Hs. cbn [depth] in Hd. destruct fuel as [|f]; [lia|].
  rewrite embed_ref. destruct lt as [a|].
  - cbn [lex app next_type ref_prefix bind]. apply Hbody; [lia|exact Hs].
  - cbn [lex app next_type]. pose proof (base_head t rest Hb) as Hh. specialize (Hbody f (Some None) rest ltac:(lia) Hs).
    destruct (lex t ++ rest) as [|[s|p|n|dl ts] r] eqn:E; cbn [ref_prefix bind]; try exact Hbody.
    destruct p; try contradiction; exact Hbody.
Qed.

(* every well-formed type of the grammar, in every legal context, at every sufficient fuel, parses to its expected tree and leaves exactly the context *)
Theorem all_wf_types : forall t, wf t -> parses t /\ (is_base t = true -> body_parses t).
Proof.
  induction t as [s0 segs args IH|lt t IH|l tr IH|t len IH|a|] using g_ind2; intros W.
  - cbn in W. destruct W as [Hkw Wa]. fold (wf_all args) in Wa. apply wf_all_Forall in Wa.
    assert (Hall: Forall parses args). { rewrite Forall_forall in *. intros a Ha. apply (IH a Ha). apply Wa. exact Ha. }
    pose proof (body_path s0 segs args Hkw Hall) as B. split; [apply body_to_parse; [reflexivity|exact B]|intros _; exact B].
  - cbn in W. destruct W as [Hb Wt]. destruct (IH Wt) as [_ B]. split; [apply ref_parse; [exact Hb|apply B; exact Hb]|discriminate].
  - cbn in W. destruct W as [Htr Wl]. fold (wf_all l) in Wl. apply wf_all_Forall in Wl.
    assert (Hall: Forall parses l). { rewrite Forall_forall in *. intros a Ha. apply (IH a Ha). apply Wl. exact Ha. }
    pose proof (body_tuple l tr Htr Hall) as B. split; [apply body_to_parse; [reflexivity|exact B]|intros _; exact B].
  - cbn in W. destruct W as [Wt Hlen]. destruct (IH Wt) as [Pt _].
    pose proof (body_array t len Pt Hlen) as B. split; [apply body_to_parse; [reflexivity|exact B]|intros _; exact B].
  - split; [|discriminate]. intros fuel rest Hd Hs. destruct fuel; [cbn in Hd; lia|]. reflexivity.
  - split; [|discriminate]. intros fuel rest Hd Hs. destruct fuel; [cbn in Hd; lia|]. reflexivity.
Qed.

Theorem parse_complete : forall t rest, wf t -> stop rest -> next_type (S (depth t)) (lex t ++ rest) = Ok (Some (embed t)) rest.
Proof. intros t rest W Hs. apply (proj1 (all_wf_types t W)); [lia|exact Hs]. Qed.

(* the limitation the proof forced into wf: a reference to a reference is not consumed as one type *)
Example nested_ref_not_one_type :
  next_type 5 (lex (GRef None (GRef None (GPath "T" [] [])))) = Ok (Some (Ty CUnNamed None (Some None) None)) [TP PAmp; TId "T"].
Proof. reflexivity. Qed.
Print Assumptions parse_complete.
