From Coq Require Import List Arith Lia Bool Permutation.
Import ListNotations.
Require Import S.ListOps S.Slots S.SlotsBasics S.SlotsOps S.SlotsInsert S.SlotsSort S.SlotsDrain S.SlotsExtend S.SlotsSwap.
Require Import S.RopeAbs S.RopeAbsProofs S.RopePhys S.RopeSim1.
Arguments RopeAbs.a_chunks_of : simpl never.

Section SIM2.
Context {T: Type}.
Variables (MAX BASE UNDER FIC: nat).
Hypothesis HBM : BASE <= MAX.
Notation chunk := (@am T).
Notation rope := (list (@am T)).
Notation arope := (list (list T)).
Notation RopeRep := (@RopeSim1.RopeRep T MAX).

Lemma is_nil_eq (l: list T) : match l with [] => true | _ :: _ => false end = RopeAbs.is_nil l.
Proof. destruct l; reflexivity. Qed.

Lemma reb_loop_sim : forall fuel (done_rev rest: rope) (dls rls: arope) carry,
  RopeRep done_rev dls -> RopeRep rest rls ->
  exists lchunks, a_reb_loop BASE fuel dls rls carry = (lchunks, snd (reb_loop BASE fuel done_rev rest carry))
    /\ RopeRep (fst (reb_loop BASE fuel done_rev rest carry)) lchunks.
Proof.
  induction fuel as [|fuel IH]; intros done_rev rest dls rls carry Rd Rr; cbn [reb_loop RopeAbs.a_reb_loop].
  - eexists. split; [reflexivity|]. cbn [fst]. apply RopeRep_app; [apply RopeRep_rev; exact Rd|exact Rr].
  - destruct Rr as [|entry le rest rls Re Rr].
    { eexists. split; [reflexivity|]. cbn [fst]. apply RopeRep_rev. exact Rd. }
    rewrite (Rep_empty entry le MAX Re), (Rep_len entry le MAX Re). rewrite !is_nil_eq.
    destruct (RopeAbs.is_nil le) eqn:En.
    { apply IH; [constructor; assumption|exact Rr]. }
    unfold RopePhys.LOW, RopePhys.HIGH, RopeAbs.LOW, RopeAbs.HIGH.
    destruct ((BASE - BASE / 2 <=? length le) && (length le <=? BASE + BASE / 2) && RopeAbs.is_nil carry) eqn:Eb.
    { eexists. split; [reflexivity|]. cbn [fst]. apply RopeRep_app; [apply RopeRep_rev; exact Rd|constructor; assumption]. }
    destruct (length le <? BASE) eqn:El.
    + apply Nat.ltb_lt in El. destruct (RopeAbs.is_nil carry) eqn:Ec.
      * destruct (pull_sim MAX BASE HBM rest rls entry le Rr Re ltac:(lia)) as (lh' & lrest' & P1 & P2 & P3).
        rewrite P1. destruct (pull BASE entry rest) as [hold' rest'']. cbn [fst snd] in P2, P3.
        apply IH; [constructor; assumption|exact P3].
      * pose proof (drain_refines MAX entry le 0 None Re) as D. cbn [hi_of] in D. specialize (D ltac:(lia)).
        destruct (am_drain entry 0 None) as [e0 vals]. cbn [fst snd] in D. destruct D as [D1 D2].
        cbn [firstn app] in D1. rewrite skipn_all in D1. rewrite Nat.sub_0_r in D2. cbn [skipn] in D2. rewrite firstn_all in D2. subst vals.
        set (c := carry ++ le).
        assert (Ex: Rep MAX (am_extend e0 (firstn BASE c)) (firstn BASE c)).
        { apply (extend_refines MAX e0 [] (firstn BASE c) D1). rewrite firstn_length. cbn [length]. lia. }
        destruct (pull_sim MAX BASE HBM rest rls _ _ Rr Ex ltac:(rewrite firstn_length; lia)) as (lh' & lrest' & P1 & P2 & P3).
        rewrite P1. destruct (pull BASE (am_extend e0 (firstn BASE c)) rest) as [hold' rest'']. cbn [fst snd] in P2, P3.
        apply IH; [constructor; assumption|exact P3].
    + apply Nat.ltb_ge in El. destruct ((length le =? BASE) && RopeAbs.is_nil carry) eqn:Ee.
      { apply IH; [constructor; assumption|exact Rr]. }
      destruct (negb (RopeAbs.is_nil carry)) eqn:Ec.
      * pose proof (drain_refines MAX entry le 0 None Re) as D. cbn [hi_of] in D. specialize (D ltac:(lia)).
        destruct (am_drain entry 0 None) as [e0 vals]. cbn [fst snd] in D. destruct D as [D1 D2].
        cbn [firstn app] in D1. rewrite skipn_all in D1. rewrite Nat.sub_0_r in D2. cbn [skipn] in D2. rewrite firstn_all in D2. subst vals.
        apply IH; [|exact Rr]. constructor; [|exact Rd].
        apply (extend_refines MAX e0 [] (firstn BASE (carry ++ le)) D1). rewrite firstn_length. cbn [length]. lia.
      * pose proof (drain_refines MAX entry le BASE None Re) as D. cbn [hi_of] in D. specialize (D ltac:(lia)).
        destruct (am_drain entry BASE None) as [e0 vals]. cbn [fst snd] in D. destruct D as [D1 D2].
        rewrite skipn_all, app_nil_r in D1. rewrite firstn_all2 in D2 by (rewrite skipn_length; lia). subst vals.
        apply IH; [constructor; assumption|exact Rr].
Qed.

Lemma filter_sim (r: rope) (ls: arope) : RopeRep r ls ->
  RopeRep (filter (fun c => negb (am_is_empty c)) r) (filter (fun c => negb (RopeAbs.is_nil c)) ls).
Proof.
  intros R. induction R as [|c l r ls Rc R IH]; cbn [filter]; [constructor|].
  rewrite (Rep_empty c l MAX Rc). destruct (RopeAbs.is_nil l); cbn [negb]; [exact IH|constructor; assumption].
Qed.

Lemma chunks_of_sim : forall fuel (carry: list T), 1 <= BASE ->
  exists r, chunks_of MAX BASE fuel carry = Some r /\ RopeRep r (a_chunks_of BASE fuel carry).
Proof.
  induction fuel as [|fuel IH]; intros carry HB.
  - exists []. split; [reflexivity|constructor].
  - cbn [chunks_of]. rewrite RopeAbsProofs.chunks_of_S. destruct (BASE <? length carry) eqn:E.
    + destruct (from_list_rep MAX (firstn BASE carry)) as (c & F & Rc); [rewrite firstn_length; lia|].
      rewrite F. cbn [Slots.bind]. destruct (IH (skipn BASE carry) HB) as (r & Fr & Rr). rewrite Fr. cbn [Slots.bind].
      eexists. split; [reflexivity|constructor; assumption].
    + apply Nat.ltb_ge in E. destruct carry as [|x carry]; [exists []; split; [reflexivity|constructor]|].
      destruct (from_list_rep MAX (x :: carry)) as (c & F & Rc); [lia|]. rewrite F. cbn [Slots.bind].
      eexists. split; [reflexivity|constructor; [assumption|constructor]].
Qed.

Theorem rebalance_sim (r: rope) (ls: arope) start ls' : 1 <= BASE -> RopeRep r ls ->
  a_rebalance BASE ls start = Some ls' ->
  exists r', rebalance_from_key MAX BASE r start = Some r' /\ RopeRep r' ls'.
Proof.
  intros HB R. unfold rebalance_from_key, RopeAbs.a_rebalance.
  destruct (reb_loop_sim (S (length r)) (rev (firstn start r)) (skipn start r) (rev (firstn start ls)) (skipn start ls) [])
    as (lchunks & A1 & A2); [apply RopeRep_rev, RopeRep_firstn; exact R|apply RopeRep_skipn; exact R|].
  rewrite <- (RopeRep_length MAX r ls R). rewrite A1.
  destruct (reb_loop BASE (S (length r)) (rev (firstn start r)) (skipn start r) []) as [chunks carry]. cbn [fst snd] in *.
  pose proof (filter_sim chunks lchunks A2) as Fk.
  destruct carry as [|x carry].
  - intros [= <-]. eexists. split; [reflexivity|exact Fk].
  - pose proof (RopeRep_rev MAX _ _ Fk) as Rv.
    destruct (rev (filter (fun c => negb (RopeAbs.is_nil c)) lchunks)) as [|llast linit] eqn:El; [discriminate|]. intros [= <-].
    inversion Rv as [|last ll init li Rl Ri E1 E2]; subst.
    rewrite (Rep_len last llast MAX Rl). cbn [length].
    set (k := Nat.min (BASE - length llast) (S (length carry))).
    destruct (chunks_of_sim (S (S (length carry))) (skipn k (x :: carry)) HB) as (tail & Ft & Rt). rewrite Ft. cbn [Slots.bind].
    eexists. split; [reflexivity|].
    apply RopeRep_app; [apply RopeRep_rev; exact Ri|]. cbn [app]. constructor; [|exact Rt].
    apply (extend_refines MAX last llast _ Rl). rewrite firstn_length. pose proof (Rep_len_le last llast MAX Rl). subst k. cbn [length]. lia.
Qed.
End SIM2.
Print Assumptions rebalance_sim.
