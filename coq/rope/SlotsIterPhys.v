(* The owning iterator at slot level: get_lookups (sort storage positions by logical index), next / next_back with take().
   It simulates the value-table iterator of SlotsIter.v, hence is a deque over the represented list (after the repair of D2). *)
From Coq Require Import List Arith Lia Bool Permutation Sorted.
Import ListNotations.
Require Import S.ListOps S.Slots S.SlotsBasics S.SlotsSort S.SlotsIter.

Section PH.
Context {T: Type}.
Notation slot := (option (nat * T)).

(* (logical index, storage position) of every occupied slot *)
Fixpoint isomes (k0: nat) (sl: list slot) : list (nat * nat) :=
  match sl with [] => [] | Some (i, _) :: r => (i, k0) :: isomes (S k0) r | None :: r => isomes (S k0) r end.
(* get_lookups: storage positions in logical order, padded with None to N; with no occupied slot start_of_somes is 0 and every storage position is listed *)
Definition get_lookups (N: nat) (sl: list slot) : list (option nat) :=
  match @sort_by_idx nat (isomes 0 sl) with
  | [] => map Some (seq 0 N)
  | srt => map (fun p => Some (snd p)) srt ++ repeat None (N - length srt)
  end.

Definition pst : Type := list slot * list (option nat) * nat * rpos.
Definition take_at (sl: list slot) (lk: list (option nat)) (p: nat) : option (T * list slot) :=
  match nth_error lk p with
  | Some (Some k) => match nth_error sl k with Some (Some (_, v)) => Some (v, set_nth k None sl) | _ => None end
  | _ => None
  end.
Definition ph_next (s: pst) : option T * pst :=
  let '(sl, lk, pos, rp) := s in
  match take_at sl lk pos with Some (v, sl') => (Some v, (sl', lk, S pos, rp)) | None => (None, s) end.
Definition ph_next_back (s: pst) : option T * pst :=
  let '(sl, lk, pos, rp) := s in
  match rp with
  | WRAPPED => (None, s)
  | RP k => match take_at sl lk k with Some (v, sl') => (Some v, (sl', lk, pos, match k with 0 => WRAPPED | S k' => RP k' end)) | None => (None, s) end
  end.
Fixpoint ph_run (calls: list bool) (s: pst) : list (option T) :=
  match calls with [] => [] | c :: calls' => let '(o, s') := if c then ph_next s else ph_next_back s in o :: ph_run calls' s' end.
Definition ph_init (N: nat) (m: @am T) : pst := (slots m, get_lookups N (slots m), 0, RP (cnt m - 1)).

(* ---- abstraction to the value table ---- *)
Definition cell (sl: list slot) (o: option nat) : option T :=
  match o with Some k => match nth_error sl k with Some (Some (_, v)) => Some v | _ => None end | None => None end.
Definition tbl (sl: list slot) (lk: list (option nat)) : list (option T) := map (cell sl) lk.
Definition abs (s: pst) : ist := let '(sl, lk, pos, rp) := s in (tbl sl lk, pos, rp).
Definition distinct_some (lk: list (option nat)) : Prop := forall p q k, nth_error lk p = Some (Some k) -> nth_error lk q = Some (Some k) -> p = q.

Lemma nth_error_set_nth {A} (l: list A) k x j : nth_error (set_nth k x l) j = if (j =? k) && (k <? length l) then Some x else nth_error l j.
Proof.
  revert k j. induction l as [|y l IH]; intros k j; [destruct k, j; cbn; rewrite ?andb_false_r; reflexivity|].
  destruct k as [|k]; destruct j as [|j]; cbn [set_nth nth_error]; try reflexivity. rewrite IH. reflexivity.
Qed.

Lemma nth_error_ext' {A} (l1 l2: list A) : (forall j, nth_error l1 j = nth_error l2 j) -> l1 = l2.
Proof.
  revert l2. induction l1 as [|x l1 IH]; intros [|y l2] H; try reflexivity.
  - specialize (H 0). discriminate.
  - specialize (H 0). discriminate.
  - pose proof (H 0) as H0. cbn in H0. injection H0 as <-. f_equal. apply IH. intros j. apply (H (S j)).
Qed.

Lemma tbl_take sl lk p k v : distinct_some lk -> nth_error lk p = Some (Some k) -> nth_error sl k = Some (Some v) ->
  tbl (set_nth k None sl) lk = set_none p (tbl sl lk).
Proof.
  intros Hd Hp Hk. apply nth_error_ext'. intros j. unfold tbl. rewrite nth_set_none, !nth_error_map, map_length.
  assert (Lk: k < length sl) by (apply nth_error_Some; congruence).
  destruct (Nat.eqb_spec j p) as [->|Hne].
  - assert (Lp: p < length lk) by (apply nth_error_Some; congruence). rewrite (proj2 (Nat.ltb_lt p (length lk)) Lp). cbn [andb].
    rewrite Hp. cbn [option_map cell]. rewrite nth_error_set_nth, Nat.eqb_refl, (proj2 (Nat.ltb_lt k (length sl)) Lk). reflexivity.
  - cbn [andb]. destruct (nth_error lk j) as [[k'|]|] eqn:Ej; cbn [option_map cell]; try reflexivity.
    rewrite nth_error_set_nth. destruct (Nat.eqb_spec k' k) as [->|Hk']; [exfalso; apply Hne; apply (Hd j p k Ej Hp)|]. reflexivity.
Qed.

Lemma take_sim sl lk p : distinct_some lk ->
  match take_at sl lk p with
  | Some (v, sl') => nth_error (tbl sl lk) p = Some (Some v) /\ tbl sl' lk = set_none p (tbl sl lk)
  | None => nth_error (tbl sl lk) p = None \/ nth_error (tbl sl lk) p = Some None
  end.
Proof.
  intros Hd. unfold take_at, tbl. rewrite nth_error_map.
  destruct (nth_error lk p) as [[k|]|] eqn:Ep; cbn [option_map cell]; [|right; reflexivity|left; reflexivity].
  destruct (nth_error sl k) as [[[i v]|]|] eqn:Ek; [|right; reflexivity|right; reflexivity].
  split; [reflexivity|]. apply (tbl_take sl lk p k (i, v) Hd Ep Ek).
Qed.

Lemma step_sim (s: pst) (c: bool) : (let '(_, lk, _, _) := s in distinct_some lk) ->
  let '(o, s') := if c then ph_next s else ph_next_back s in
  (if c then it_next (abs s) else it_next_back (abs s)) = (o, abs s') /\ (let '(_, lk', _, _) := s' in let '(_, lk, _, _) := s in lk' = lk).
Proof.
  destruct s as [[[sl lk] pos] rp]. intros Hd. destruct c.
  - unfold ph_next, it_next, abs. pose proof (take_sim sl lk pos Hd) as TS. destruct (take_at sl lk pos) as [[v sl']|].
    + destruct TS as [E1 E2]. rewrite E1, E2. split; reflexivity.
    + destruct TS as [E|E]; rewrite E; split; reflexivity.
  - unfold ph_next_back, it_next_back, abs. destruct rp as [k|]; [|split; reflexivity].
    pose proof (take_sim sl lk k Hd) as TS. destruct (take_at sl lk k) as [[v sl']|].
    + destruct TS as [E1 E2]. rewrite E1, E2. split; reflexivity.
    + destruct TS as [E|E]; rewrite E; split; reflexivity.
Qed.

Theorem run_sim : forall calls (s: pst), (let '(_, lk, _, _) := s in distinct_some lk) -> ph_run calls s = it_run calls (abs s).
Proof.
  induction calls as [|c calls IH]; intros s Hd; [reflexivity|]. cbn [ph_run it_run].
  pose proof (step_sim s c Hd) as St. destruct (if c then ph_next s else ph_next_back s) as [o s'].
  destruct St as [E Hl]. destruct c; rewrite E; f_equal; apply IH;
    destruct s as [[[sl lk] pos] rp]; destruct s' as [[[sl' lk'] pos'] rp']; subst lk'; exact Hd.
Qed.

Lemma nth_error_seq a n i : i < n -> nth_error (seq a n) i = Some (a + i).
Proof. revert a i. induction n as [|n IH]; intros a i H; [lia|]. destruct i; cbn; [f_equal; lia|]. rewrite IH by lia. f_equal. lia. Qed.

(* ---- the lookup table of a layout that represents l ---- *)
Lemma isomes_fst k0 (sl: list slot) : map fst (isomes k0 sl) = map fst (somes sl).
Proof. revert k0. induction sl as [|[[i v]|] sl IH]; intros k0; cbn; [reflexivity|f_equal; apply IH|apply IH]. Qed.
Lemma isomes_in (sl: list slot) : forall k0 i k, In (i, k) (isomes k0 sl) <-> k0 <= k /\ exists v, nth_error sl (k - k0) = Some (Some (i, v)).
Proof.
  induction sl as [|[[i0 v0]|] sl IH]; intros k0 i k; cbn [isomes].
  - split; [contradiction|]. intros [_ [v H]]. destruct (k - k0); discriminate.
  - cbn [In]. rewrite IH. split.
    + intros [[= <- <-]|[Hle [v Hv]]]; [split; [lia|]; exists v0; rewrite Nat.sub_diag; reflexivity|].
      split; [lia|]. exists v. replace (k - k0) with (S (k - S k0)) by lia. exact Hv.
    + intros [Hle [v Hv]]. destruct (Nat.eq_dec k k0) as [->|Hne].
      * rewrite Nat.sub_diag in Hv. cbn in Hv. injection Hv as <- _. left. reflexivity.
      * right. split; [lia|]. exists v. replace (k - k0) with (S (k - S k0)) in Hv by lia. exact Hv.
  - rewrite IH. split.
    + intros [Hle [v Hv]]. split; [lia|]. exists v. replace (k - k0) with (S (k - S k0)) by lia. exact Hv.
    + intros [Hle [v Hv]]. destruct (Nat.eq_dec k k0) as [->|Hne]; [rewrite Nat.sub_diag in Hv; discriminate|].
      split; [lia|]. exists v. replace (k - k0) with (S (k - S k0)) in Hv by lia. exact Hv.
Qed.
Lemma isomes_snd_ge (sl: list slot) : forall k0 p, In p (isomes k0 sl) -> k0 <= snd p.
Proof. intros k0 [i k] H. apply isomes_in in H. cbn. tauto. Qed.
Lemma isomes_snd_nodup (sl: list slot) : forall k0, NoDup (map snd (isomes k0 sl)).
Proof.
  induction sl as [|[[i0 v0]|] sl IH]; intros k0; cbn [isomes map snd]; [constructor| |apply IH].
  constructor; [|apply IH]. intros H. apply in_map_iff in H. destruct H as [p [E Hp]]. apply isomes_snd_ge in Hp. lia.
Qed.

Lemma lookups_spec N (m: @am T) (l: list T) : Rep N m l ->
  let lk := get_lookups N (slots m) in
  distinct_some lk /\
  forall i, (i < length l -> nth_error (tbl (slots m) lk) i = option_map Some (nth_error l i)) /\ (~ i < length l -> empty_at (tbl (slots m) lk) i).
Proof.
  intros R. pose proof R as (HN & Hc & Hnd & Hin). cbn zeta. unfold get_lookups.
  set (sl := slots m) in *. set (L := isomes 0 sl). set (srt := @sort_by_idx nat L).
  assert (P: Permutation srt L) by apply sort_by_idx_perm.
  assert (Lsrt: length srt = length l).
  { rewrite (Permutation_length P). unfold L. rewrite <- (map_length fst), isomes_fst, map_length. apply (Rep_somes_length N m l R). }
  assert (Keys: map fst srt = seq 0 (length l)).
  { apply sorted_perm_seq.
    - pose proof (@sort_by_idx_sorted nat L) as Hs. fold srt in Hs. clear - Hs. induction Hs; cbn; constructor; [assumption|].
      rewrite Forall_forall in *. intros k Hk. apply in_map_iff in Hk. destruct Hk as [q [<- Hq]]. apply H. exact Hq.
    - eapply Permutation_NoDup; [apply Permutation_map, Permutation_sym, P|]. unfold L. rewrite isomes_fst. exact Hnd.
    - eapply perm_trans; [apply Permutation_map, P|]. unfold L. rewrite isomes_fst. apply NoDup_Permutation; [exact Hnd|apply seq_NoDup|].
      intros i. rewrite in_seq. split.
      + intros Hi. apply in_map_iff in Hi. destruct Hi as [[j v] [<- Hjv]]. apply Hin in Hjv. cbn. assert (j < length l) by (apply nth_error_Some; congruence). lia.
      + intros Hi. destruct (nth_error l i) as [v|] eqn:E; [|apply nth_error_None in E; lia].
        apply in_map_iff. exists (i, v). split; [reflexivity|apply Hin; exact E]. }
  assert (Nsnd: NoDup (map snd srt)) by (eapply Permutation_NoDup; [apply Permutation_map, Permutation_sym, P|apply isomes_snd_nodup]).
  (* what the i-th sorted entry is *)
  assert (Ent: forall i, i < length l -> exists k v, nth_error srt i = Some (i, k) /\ nth_error sl k = Some (Some (i, v)) /\ nth_error l i = Some v).
  { intros i Hi. destruct (nth_error srt i) as [[j k]|] eqn:E; [|apply nth_error_None in E; lia].
    assert (j = i). { pose proof (map_nth_error fst i srt E) as F. rewrite Keys in F. cbn in F. rewrite nth_error_seq in F by exact Hi. injection F as <-. reflexivity. }
    subst j. assert (In (i, k) L) by (eapply Permutation_in; [exact P|eapply nth_error_In; exact E]).
    apply isomes_in in H. destruct H as [_ [v Hv]]. rewrite Nat.sub_0_r in Hv. exists k, v. split; [reflexivity|]. split; [exact Hv|].
    apply Hin. apply in_somes. eapply nth_error_In. exact Hv. }
  destruct srt as [|e0 srt0] eqn:Es.
  - (* nothing stored: every storage position is listed and every slot is empty *)
    cbn in Lsrt. assert (Hl: length l = 0) by lia.
    assert (AllNone: forall k, cell sl (Some k) = None).
    { intros k. cbn [cell]. destruct (nth_error sl k) as [[[i v]|]|] eqn:E; try reflexivity.
      exfalso. assert (In (i, v) (somes sl)) by (apply in_somes; eapply nth_error_In; exact E). apply Hin in H.
      assert (i < length l) by (apply nth_error_Some; congruence). lia. }
    split.
    + intros p q k Hp Hq. rewrite nth_error_map in Hp, Hq.
      destruct (nth_error (seq 0 N) p) as [a|] eqn:Ea; [|discriminate]. destruct (nth_error (seq 0 N) q) as [b|] eqn:Eb; [|discriminate].
      cbn in Hp, Hq. injection Hp as ->. injection Hq as ->.
      assert (p < N) by (rewrite <- (seq_length N 0); apply nth_error_Some; congruence). assert (q < N) by (rewrite <- (seq_length N 0); apply nth_error_Some; congruence).
      rewrite nth_error_seq in Ea, Eb by assumption. cbn in Ea, Eb. congruence.
    + intros i. split; [lia|]. intros _. unfold empty_at, tbl. rewrite nth_error_map.
      destruct (nth_error (map Some (seq 0 N)) i) as [o|] eqn:E; [|left; reflexivity]. right. cbn [option_map].
      rewrite nth_error_map in E. destruct (nth_error (seq 0 N) i); [|discriminate]. cbn in E. injection E as <-. rewrite AllNone. reflexivity.
  - rewrite <- Es in *. clear Es e0 srt0.
    set (lk := map (fun p : nat * nat => Some (snd p)) srt ++ repeat None (N - length srt)).
    assert (Front: forall i, i < length l -> exists k v, nth_error lk i = Some (Some k) /\ nth_error srt i = Some (i, k) /\ nth_error sl k = Some (Some (i, v)) /\ nth_error l i = Some v).
    { intros i Hi. destruct (Ent i Hi) as (k & v & E1 & E2 & E3). exists k, v. split; [|auto].
      unfold lk. rewrite nth_error_app1 by (rewrite map_length; lia). rewrite nth_error_map, E1. reflexivity. }
    assert (Back: forall i, ~ i < length l -> nth_error lk i = None \/ nth_error lk i = Some None).
    { intros i Hi. unfold lk. rewrite nth_error_app2 by (rewrite map_length; lia). rewrite map_length.
      destruct (nth_error (repeat None (N - length srt)) (i - length srt)) as [o|] eqn:E; [|left; reflexivity].
      right. apply nth_error_In in E. apply repeat_spec in E. subst o. reflexivity. }
    split.
    + intros p q k Hp Hq.
      assert (Hpl: p < length l). { destruct (Nat.lt_ge_cases p (length l)); [assumption|]. destruct (Back p ltac:(lia)) as [E|E]; congruence. }
      assert (Hql: q < length l). { destruct (Nat.lt_ge_cases q (length l)); [assumption|]. destruct (Back q ltac:(lia)) as [E|E]; congruence. }
      destruct (Front p Hpl) as (kp & vp & F1 & F2 & _). destruct (Front q Hql) as (kq & vq & G1 & G2 & _).
      rewrite F1 in Hp. rewrite G1 in Hq. injection Hp as ->. injection Hq as ->.
      (* equal storage position in a list with duplicate-free second components: same position *)
      assert (Sp: nth_error (map snd srt) p = Some k) by (rewrite nth_error_map, F2; reflexivity).
      assert (Sq: nth_error (map snd srt) q = Some k) by (rewrite nth_error_map, G2; reflexivity).
      apply (proj1 (NoDup_nth_error (map snd srt)) Nsnd p q); [apply nth_error_Some; congruence|congruence].
    + intros i. split.
      * intros Hi. destruct (Front i Hi) as (k & v & F1 & _ & F3 & F4). unfold tbl. rewrite nth_error_map, F1. cbn [option_map cell]. rewrite F3, F4. reflexivity.
      * intros Hi. unfold empty_at, tbl. rewrite nth_error_map. destruct (Back i Hi) as [E|E]; rewrite E; [left|right]; reflexivity.
Qed.

(* C10, iteration clause at slot level: every interleaving of next / next_back on a layout representing l is the deque over l *)
Theorem chunk_back_iteration N (m: @am T) (l: list T) calls : Rep N m l -> ph_run calls (ph_init N m) = dq_run l calls 0 0.
Proof.
  intros R. destruct (lookups_spec N m l R) as [Hd Ht]. pose proof R as (_ & Hc & _ & _).
  rewrite run_sim by exact Hd. apply iter_is_deque. unfold abs, ph_init, inv. split; [lia|]. split; [reflexivity|]. split.
  - intros i. rewrite Nat.sub_0_r. split; [intros Hi; apply Ht; lia|intros Hi; apply Ht; lia].
  - rewrite Hc, Nat.sub_0_r. destruct (Nat.ltb_spec 0 (length l)); [reflexivity|]. destruct (Nat.eqb_spec (length l) 0); [reflexivity|lia].
Qed.
End PH.
Print Assumptions chunk_back_iteration.
