From Coq Require Import List Arith Lia Bool Permutation Sorted.
Import ListNotations.
Require Import S.ListOps S.Slots S.SlotsBasics.

Section SO.
Context {T: Type}.
Notation kv := (nat * T)%type.
Definition kle (p q: kv) := fst p <= fst q.

Lemma ins_sorted_perm (x: kv) l : Permutation (ins_sorted x l) (x :: l).
Proof.
  induction l as [|y l IH]; cbn; [apply Permutation_refl|]. destruct (fst y <=? fst x); [|apply Permutation_refl].
  eapply perm_trans; [apply perm_skip, IH|apply perm_swap].
Qed.
Lemma sort_by_idx_perm (l: list kv) : Permutation (sort_by_idx l) l.
Proof.
  unfold sort_by_idx. assert (G: forall acc, Permutation (fold_left (fun acc x => ins_sorted x acc) l acc) (acc ++ l)).
  { induction l as [|x l IH]; intros acc; cbn; [rewrite app_nil_r; apply Permutation_refl|].
    eapply perm_trans; [apply IH|]. eapply perm_trans; [apply Permutation_app_tail, ins_sorted_perm|]. cbn. apply Permutation_middle. }
  apply (G []).
Qed.

Lemma ins_sorted_sorted (x: kv) l : StronglySorted kle l -> StronglySorted kle (ins_sorted x l).
Proof.
  induction l as [|y l IH]; intros Hs; cbn; [constructor; constructor|].
  inversion Hs; subst. destruct (Nat.leb_spec (fst y) (fst x)).
  - constructor; [apply IH; assumption|]. apply Forall_forall. intros z Hz.
    apply (Permutation_in _ (ins_sorted_perm x l)) in Hz. destruct Hz as [<-|Hz]; [exact H|]. rewrite Forall_forall in H2. apply H2. exact Hz.
  - constructor; [exact Hs|]. constructor; [unfold kle; lia|]. rewrite Forall_forall in *. intros z Hz. specialize (H2 z Hz). unfold kle in *. lia.
Qed.
Lemma sort_by_idx_sorted (l: list kv) : StronglySorted kle (sort_by_idx l).
Proof.
  unfold sort_by_idx. assert (G: forall acc, StronglySorted kle acc -> StronglySorted kle (fold_left (fun acc x => ins_sorted x acc) l acc)).
  { induction l as [|x l IH]; intros acc Hs; cbn; [exact Hs|]. apply IH. apply ins_sorted_sorted. exact Hs. }
  apply G. constructor.
Qed.

(* a sorted duplicate-free key list that is a permutation of [a, a+n) is that interval *)
Lemma sorted_perm_seq : forall n a (ks: list nat),
  StronglySorted le ks -> NoDup ks -> Permutation ks (seq a n) -> ks = seq a n.
Proof.
  induction n as [|n IH]; intros a ks Hs N P.
  - cbn in P. apply Permutation_nil. apply Permutation_sym. exact P.
  - cbn [seq] in *. destruct ks as [|k0 ks]; [apply Permutation_nil_cons in P; contradiction|].
    inversion Hs; subst. inversion N; subst. rewrite Forall_forall in H2.
    assert (k0 = a).
    { assert (Hk0: In k0 (a :: seq (S a) n)) by (eapply Permutation_in; [exact P|left; reflexivity]).
      assert (Ha: In a (k0 :: ks)) by (eapply Permutation_in; [apply Permutation_sym; exact P|left; reflexivity]).
      destruct Hk0 as [E|Hk0]; [congruence|]. apply in_seq in Hk0.
      destruct Ha as [E|Ha]; [exact E|]. specialize (H2 a Ha). lia. }
    subst k0. f_equal. apply IH; [assumption|assumption|]. eapply Permutation_cons_inv. exact P.
Qed.

(* the sorted association list of the index interval [a, a+n) of l lists l's elements in order *)
Lemma sorted_values (l: list T) (L: list kv) a n :
  NoDup (map fst L) ->
  (forall i v, In (i, v) L <-> a <= i < a + n /\ nth_error l i = Some v) ->
  a + n <= length l ->
  map snd (sort_by_idx L) = firstn n (skipn a l).
Proof.
  intros N H Hlen.
  set (L' := sort_by_idx L).
  assert (P: Permutation L' L) by apply sort_by_idx_perm.
  assert (Keys: map fst L' = seq a n).
  { apply sorted_perm_seq.
    - pose proof (sort_by_idx_sorted L) as Hs. fold L' in Hs. clear - Hs. induction Hs; cbn; constructor; [assumption|].
      rewrite Forall_forall in *. intros k Hk. apply in_map_iff in Hk. destruct Hk as [q [<- Hq]]. apply H. exact Hq.
    - eapply Permutation_NoDup; [apply Permutation_map, Permutation_sym, P|exact N].
    - eapply perm_trans; [apply Permutation_map, P|]. apply NoDup_Permutation; [exact N|apply seq_NoDup|].
      intros i. rewrite in_seq. split.
      + intros Hi. apply in_map_iff in Hi. destruct Hi as [[j v] [<- Hjv]]. apply H in Hjv. cbn. lia.
      + intros Hi. destruct (nth_error l i) as [v|] eqn:E; [|apply nth_error_None in E; lia].
        apply in_map_iff. exists (i, v). split; [reflexivity|apply H; split; [lia|exact E]]. }
  assert (Vals: forall p, In p L' -> nth_error l (fst p) = Some (snd p)).
  { intros [i v] Hp. apply (Permutation_in _ P) in Hp. apply H in Hp. cbn. tauto. }
  clearbody L'. clear P H N.
  revert a L' Keys Vals Hlen. induction n as [|n IH]; intros a L' Keys Vals Hlen.
  - destruct L'; [reflexivity|discriminate].
  - destruct L' as [|[i v] L']; [discriminate|]. cbn [map fst seq] in Keys. injection Keys as -> Keys.
    cbn [map snd]. pose proof (Vals (a, v) (or_introl eq_refl)) as Hv. cbn in Hv.
    rewrite (IH (S a) L' Keys) by (try lia; intros p Hp; apply Vals; right; exact Hp).
    clear - Hv. revert a Hv. induction l as [|x l IHl]; intros a Hv; [destruct a; discriminate|].
    destruct a; cbn in *; [injection Hv as ->; reflexivity|]. apply IHl. exact Hv.
Qed.
End SO.
