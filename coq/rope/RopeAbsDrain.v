From Coq Require Import List Arith Lia Bool.
Import ListNotations.
Require Import S.ListOps S.RopeAbs S.RopeAbsProofs S.RopeAbsInv S.RopeAbsOps.

Section AD.
Context {T: Type}.
Variables (MAX BASE UNDER: nat).
Hypothesis HBASE : 1 <= BASE.
Hypothesis HBM : BASE <= MAX - 1.
Hypothesis HHIGH : RopeAbs.HIGH BASE <= MAX - 1.
Notation chunk := (list T).
Notation arope := (list (list T)).
Notation Inv := (@RopeAbsInv.Inv T MAX).
Notation Bnd := (@RopeAbsInv.Bnd T MAX).
Notation NonEmpty := (@RopeAbsInv.NonEmpty T).
Notation a_drain := (@RopeAbs.a_drain T BASE UNDER).
Notation flat := (@RopeAbs.flat T).

Lemma firstn_app_mid {A} (X Y: list A) j : firstn (length X + j) (X ++ Y) = X ++ firstn j Y.
Proof. induction X; cbn; [reflexivity|]. f_equal. assumption. Qed.
Lemma skipn_app_mid {A} (X Y: list A) j : skipn (length X + j) (X ++ Y) = skipn j Y.
Proof. induction X; cbn; [reflexivity|]. assumption. Qed.
Lemma firstn_app_l {A} (X Y: list A) j : j <= length X -> firstn j (X ++ Y) = firstn j X.
Proof. intros H. rewrite firstn_app. replace (j - length X) with 0 by lia. cbn. apply app_nil_r. Qed.
Lemma skipn_app_l {A} (X Y: list A) j : j <= length X -> skipn j (X ++ Y) = skipn j X ++ Y.
Proof. intros H. rewrite skipn_app. replace (j - length X) with 0 by lia. reflexivity. Qed.

Lemma drain_flat_same (P C Q: list T) a b : a <= b -> b < length C ->
  firstn (length P + a) (P ++ C ++ Q) ++ skipn (S (length P + b)) (P ++ C ++ Q) = P ++ (firstn a C ++ skipn (S b) C) ++ Q.
Proof.
  intros H1 H2. rewrite firstn_app_mid. replace (S (length P + b)) with (length P + S b) by lia. rewrite skipn_app_mid.
  rewrite firstn_app_l by lia. rewrite skipn_app_l by lia. rewrite <- !app_assoc. reflexivity.
Qed.
Lemma drain_flat_two (P C M C2 Q: list T) a b : a <= length C -> b < length C2 ->
  firstn (length P + a) (P ++ C ++ M ++ C2 ++ Q) ++ skipn (S (length P + (length C + (length M + b)))) (P ++ C ++ M ++ C2 ++ Q)
  = P ++ firstn a C ++ skipn (S b) C2 ++ Q.
Proof.
  intros H1 H2. rewrite firstn_app_mid. rewrite firstn_app_l by lia.
  replace (S (length P + (length C + (length M + b)))) with (length P + (length C + (length M + S b))) by lia.
  rewrite !skipn_app_mid. rewrite skipn_app_l by lia. rewrite <- !app_assoc. reflexivity.
Qed.

Theorem a_drain_ok (r: arope) lo hi : Inv r -> lo <= hi < length (flat r) ->
  exists r', a_drain r lo hi = Some r' /\ flat r' = firstn lo (flat r) ++ skipn (S hi) (flat r) /\ Inv r'.
Proof.
  intros I Hh. unfold RopeAbs.a_drain, RopeAbs.flat in *.
  destruct (a_kwc_in r lo ltac:(lia)) as (pre & ch & post & -> & K & Hr). rewrite K.
  destruct (Inv_split MAX pre ch post I) as (B1 & B2 & N1 & N2 & Hc).
  set (lc := length (concat pre)) in *.
  unfold RopeAbs.a_kwc_from_prev. assert (E0: (hi <? lc) = false) by (apply Nat.ltb_ge; lia). rewrite E0. rewrite skipn_mid.
  pose proof (a_kwc_from_spec (ch :: post) (length pre) hi lc ltac:(lia)) as Sp.
  destruct (a_kwc_from (ch :: post) (length pre) hi lc) as [rk rc]. destruct Sp as [Sp _].
  assert (Htot: hi < lc + length (concat (ch :: post))).
  { rewrite !concat_app, !app_length in Hh. cbn [concat] in *. rewrite app_length in *. subst lc. lia. }
  destruct (Sp Htot) as (pre2 & ch2 & post2 & E2 & -> & -> & Hr2). clear Sp.
  destruct pre2 as [|c0 mid]; cbn [app] in E2; injection E2 as E2a E2b.
  - (* same chunk *) subst ch2 post2.
    cbn [length concat]. rewrite Nat.add_0_r, Nat.eqb_refl. cbn [length concat] in Hr2. rewrite Nat.add_0_r in Hr2.
    rewrite nth_error_mid.
    assert (Gd: (lo - lc <=? S (hi - lc)) && (S (hi - lc) <=? length ch) = true) by (rewrite andb_true_iff, !Nat.leb_le; lia). rewrite Gd.
    rewrite set_nth_mid.
    set (ch' := firstn (lo - lc) ch ++ skipn (S (hi - lc)) ch).
    assert (Fl: concat (pre ++ ch' :: post) = firstn lo (concat (pre ++ ch :: post)) ++ skipn (S hi) (concat (pre ++ ch :: post))).
    { rewrite !concat_app. cbn [concat].
      assert (Ea: lo = length (concat pre) + (lo - lc)) by (subst lc; lia). assert (Eb: hi = length (concat pre) + (hi - lc)) by (subst lc; lia).
      rewrite Ea at 1. rewrite Eb at 1. rewrite drain_flat_same by lia. subst ch'. reflexivity. }
    assert (Lc: length ch' <= length ch - 1) by (subst ch'; rewrite app_length, firstn_length, skipn_length; lia).
    destruct (Nat.leb_spec (length ch') UNDER) as [Eu|Eu].
    + assert (Bn: Bnd (pre ++ ch' :: post)) by (apply Forall_app; split; [exact B1|constructor; [lia|exact B2]]).
      destruct (a_rebalance_inv MAX BASE HBASE HBM HHIGH (pre ++ ch' :: post) (length pre - 1)) as (r' & R1 & R2).
      * unfold RopeAbsInv.Bnd in *. apply Forall_firstn'. exact Bn.
      * apply (Bnd_HeadOk MAX BASE HBASE HBM HHIGH). unfold RopeAbsInv.Bnd in *. apply Forall_skipn'. exact Bn.
      * exists r'. split; [exact R1|]. split; [|exact R2]. rewrite (a_rebalance_flat BASE HBASE _ _ _ R1). exact Fl.
    + eexists. split; [reflexivity|]. split; [exact Fl|]. apply (Inv_join MAX BASE HBASE HBM HHIGH); auto. lia.
  - (* different chunks: ch, mid, ch2 *) subst c0 post.
    cbn [length concat] in *. replace (length (ch ++ concat mid)) with (length ch + length (concat mid)) in * by (symmetry; apply app_length).
    assert (Ek: (length pre =? length pre + S (length mid)) = false) by (apply Nat.eqb_neq; lia). rewrite Ek.
    rewrite nth_error_mid.
    assert (Post: Bnd mid /\ Bnd post2 /\ NonEmpty mid /\ NonEmpty post2 /\ 1 <= length ch2 <= MAX - 1).
    { apply (Inv_split MAX mid ch2 post2). split; assumption. }
    destruct Post as (Bm & Bp2 & Nm & Np2 & Hc2).
    assert (Nr: nth_error (pre ++ ch :: mid ++ ch2 :: post2) (length pre + S (length mid)) = Some ch2).
    { rewrite nth_error_app2 by lia. replace (length pre + S (length mid) - length pre) with (S (length mid)) by lia. cbn [nth_error]. apply nth_error_mid. }
    rewrite Nr. rewrite firstn_mid.
    assert (Sk: skipn (S (length pre + S (length mid))) (pre ++ ch :: mid ++ ch2 :: post2) = post2).
    { replace (S (length pre + S (length mid))) with (length pre + S (S (length mid))) by lia.
      rewrite (@skipn_app_mid (list T) pre (ch :: mid ++ ch2 :: post2) (S (S (length mid)))). rewrite skipn_cons.
      replace (S (length mid)) with (length mid + 1) by lia.
      rewrite (@skipn_app_mid (list T) mid (ch2 :: post2) 1). reflexivity. }
    rewrite Sk.
    set (rc := lc + (length ch + length (concat mid))) in *.
    assert (Gd: (lo - lc <=? length ch) && (S (hi - rc) <=? length ch2) = true) by (rewrite andb_true_iff, !Nat.leb_le; lia). rewrite Gd.
    set (lch' := firstn (lo - lc) ch). set (rch' := skipn (S (hi - rc)) ch2).
    assert (Fl: concat (pre ++ [lch'] ++ [rch'] ++ post2) =
                firstn lo (concat (pre ++ ch :: mid ++ ch2 :: post2)) ++ skipn (S hi) (concat (pre ++ ch :: mid ++ ch2 :: post2))).
    { rewrite !concat_app. cbn [concat app]. rewrite !concat_app. cbn [concat].
      assert (Ea: lo = length (concat pre) + (lo - lc)) by (subst lc; lia).
      assert (Eb: hi = length (concat pre) + (length ch + (length (concat mid) + (hi - rc)))) by (subst lc rc; lia).
      rewrite Ea at 1. rewrite Eb at 1. rewrite drain_flat_two by lia. subst lch' rch'. rewrite <- ?app_assoc. cbn [app]. reflexivity. }
    assert (L1: length lch' <= length ch) by (subst lch'; rewrite firstn_length; lia).
    assert (L2: length rch' <= length ch2) by (subst rch'; rewrite skipn_length; lia).
    destruct ((length lch' <=? UNDER) || (length rch' <=? UNDER)) eqn:Eu.
    + assert (Bn: Bnd (pre ++ [lch'] ++ [rch'] ++ post2)).
      { apply Forall_app; split; [exact B1|]. constructor; [lia|]. constructor; [lia|exact Bp2]. }
      destruct (a_rebalance_inv MAX BASE HBASE HBM HHIGH (pre ++ [lch'] ++ [rch'] ++ post2) (length pre)) as (r' & R1 & R2).
      * unfold RopeAbsInv.Bnd in *. apply Forall_firstn'. exact Bn.
      * apply (Bnd_HeadOk MAX BASE HBASE HBM HHIGH). unfold RopeAbsInv.Bnd in *. apply Forall_skipn'. exact Bn.
      * exists r'. split; [exact R1|]. split; [|exact R2]. rewrite (a_rebalance_flat BASE HBASE _ _ _ R1). exact Fl.
    + apply orb_false_iff in Eu. destruct Eu as [Eu1 Eu2]. apply Nat.leb_gt in Eu1. apply Nat.leb_gt in Eu2.
      eexists. split; [reflexivity|]. split; [exact Fl|].
      split; (apply Forall_app; split; [assumption|]); (constructor; [lia|]); (constructor; [lia|assumption]).
Qed.
End AD.
Print Assumptions a_drain_ok.
