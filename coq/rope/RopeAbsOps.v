From Coq Require Import List Arith Lia Bool.
Import ListNotations.
Require Import S.ListOps S.RopeAbs S.RopeAbsProofs S.RopeAbsInv.

Section AO.
Context {T: Type}.
Variables (MAX BASE UNDER: nat).
Hypothesis HBASE : 1 <= BASE.
Hypothesis HBM : BASE <= MAX - 1.
Hypothesis HHIGH : RopeAbs.HIGH BASE <= MAX - 1.
Notation chunk := (list T).
Notation arope := (list (list T)).
Notation Inv := (@RopeAbsInv.Inv T MAX).
Notation Bnd := (@RopeAbsInv.Bnd T MAX).
Notation NonEmpty := (@RopeAbsInv.NonEmpty T).
Notation a_insert := (@RopeAbs.a_insert T MAX BASE).
Notation a_remove := (@RopeAbs.a_remove T BASE UNDER).
Notation a_set := (@RopeAbs.a_set T).
Notation flat := (@RopeAbs.flat T).

Lemma set_nth_mid {A} (pre: list A) x y post : RopeAbs.set_nth (length pre) y (pre ++ x :: post) = pre ++ y :: post.
Proof. induction pre; cbn; [reflexivity|]. f_equal. assumption. Qed.
Lemma nth_error_mid {A} (pre: list A) x post : nth_error (pre ++ x :: post) (length pre) = Some x.
Proof. induction pre; cbn; auto. Qed.
Lemma firstn_mid {A} (pre: list A) x post : firstn (length pre) (pre ++ x :: post) = pre.
Proof. rewrite firstn_app, firstn_all, Nat.sub_diag. cbn. apply app_nil_r. Qed.
Lemma skipn_mid {A} (pre: list A) x post : skipn (length pre) (pre ++ x :: post) = x :: post.
Proof. rewrite skipn_app, skipn_all, Nat.sub_diag. reflexivity. Qed.

Lemma insert_at_app_mid (A B: list T) j v : insert_at (length A + j) v (A ++ B) = A ++ insert_at j v B.
Proof. induction A; cbn; [reflexivity|]. f_equal. assumption. Qed.
Lemma remove_at_app_mid (A B: list T) j : remove_at (length A + j) (A ++ B) = A ++ remove_at j B.
Proof. induction A; cbn; [reflexivity|]. f_equal. assumption. Qed.
Lemma update_app_mid (A B: list T) j v : update (length A + j) v (A ++ B) = A ++ update j v B.
Proof. induction A; cbn; [reflexivity|]. f_equal. assumption. Qed.
Lemma insert_at_end (l: list T) v : insert_at (length l) v l = l ++ [v].
Proof. induction l; cbn; [reflexivity|]. f_equal. assumption. Qed.
Lemma insert_at_app_l (A B: list T) j v : j <= length A -> insert_at j v (A ++ B) = insert_at j v A ++ B.
Proof. revert j. induction A as [|a A IH]; intros [|j] H; cbn in *; try lia; try reflexivity. f_equal. apply IH. lia. Qed.
Lemma remove_at_app_l (A B: list T) j : j < length A -> remove_at j (A ++ B) = remove_at j A ++ B.
Proof. revert j. induction A as [|a A IH]; intros [|j] H; cbn in *; try lia; try reflexivity. f_equal. apply IH. lia. Qed.
Lemma update_app_l (A B: list T) j v : j < length A -> update j v (A ++ B) = update j v A ++ B.
Proof. revert j. induction A as [|a A IH]; intros [|j] H; cbn in *; try lia; try reflexivity. f_equal. apply IH. lia. Qed.
Lemma length_insert_at (l: list T) pos v : length (insert_at pos v l) = S (length l).
Proof. revert pos. induction l as [|x l IH]; intros [|pos]; cbn; auto. Qed.
Lemma length_remove_at (l: list T) pos : pos < length l -> length (remove_at pos l) = length l - 1.
Proof. revert pos. induction l as [|x l IH]; intros [|pos] H; cbn in *; try lia. rewrite IH by lia. lia. Qed.
Lemma length_update (l: list T) pos v : length (update pos v l) = length l.
Proof. revert pos. induction l as [|x l IH]; intros [|pos]; cbn; auto. Qed.

Lemma Forall_firstn' {A} (P: A -> Prop) n (l: list A) : Forall P l -> Forall P (firstn n l).
Proof. intros H. rewrite <- (firstn_skipn n l) in H. apply Forall_app in H. tauto. Qed.
Lemma Forall_skipn' {A} (P: A -> Prop) n (l: list A) : Forall P l -> Forall P (skipn n l).
Proof. intros H. rewrite <- (firstn_skipn n l) in H. apply Forall_app in H. tauto. Qed.
Lemma Inv_split (pre: arope) ch post : Inv (pre ++ ch :: post) -> Bnd pre /\ Bnd post /\ NonEmpty pre /\ NonEmpty post /\ 1 <= length ch <= MAX - 1.
Proof.
  intros [B N]. unfold RopeAbsInv.Bnd, RopeAbsInv.NonEmpty in *. apply Forall_app in B. apply Forall_app in N.
  destruct B as [B1 B2]. destruct N as [N1 N2]. inversion B2; subst. inversion N2; subst. repeat split; auto.
Qed.
Lemma Inv_join (pre: arope) ch post : Bnd pre -> Bnd post -> NonEmpty pre -> NonEmpty post -> 1 <= length ch <= MAX - 1 -> Inv (pre ++ ch :: post).
Proof. intros B1 B2 N1 N2 H. split; apply Forall_app; split; try assumption; constructor; try assumption; lia. Qed.

Theorem a_insert_ok (r: arope) index v : Inv r -> index <= length (flat r) ->
  exists r', a_insert r index v = Some r' /\ flat r' = insert_at index v (flat r) /\ Inv r'.
Proof.
  intros I Hi. unfold RopeAbs.a_insert, RopeAbs.flat in *.
  destruct (Nat.lt_ge_cases index (length (concat r))) as [Hlt|Hge].
  - destruct (a_kwc_in r index Hlt) as (pre & ch & post & -> & K & Hr). rewrite K.
    destruct (Inv_split pre ch post I) as (B1 & B2 & N1 & N2 & Hc).
    assert (Ek: (length pre =? length (pre ++ ch :: post)) = false) by (apply Nat.eqb_neq; rewrite app_length; cbn; lia). rewrite Ek.
    rewrite nth_error_mid.
    assert (G: (index - length (concat pre) <? MAX) && (length ch <? MAX) && (index - length (concat pre) <=? length ch) = true).
    { rewrite !andb_true_iff, !Nat.ltb_lt, Nat.leb_le. lia. }
    rewrite G. rewrite set_nth_mid.
    set (j := index - length (concat pre)). set (ch' := insert_at j v ch).
    assert (Fl: concat (pre ++ ch' :: post) = insert_at index v (concat (pre ++ ch :: post))).
    { rewrite !concat_app. cbn [concat]. replace index with (length (concat pre) + j) by (subst j; lia).
      rewrite insert_at_app_mid. f_equal. subst ch'. rewrite insert_at_app_l by (subst j; lia). reflexivity. }
    assert (Lc: length ch' = S (length ch)) by apply length_insert_at.
    destruct (Nat.eqb_spec (length ch') MAX) as [Em|Em].
    + destruct (a_rebalance_inv MAX BASE HBASE HBM HHIGH (pre ++ ch' :: post) (length pre)) as (r' & R1 & R2).
      * rewrite firstn_mid. exact B1.
      * rewrite skipn_mid. split; [lia|exact B2].
      * exists r'. split; [exact R1|]. split; [|exact R2]. rewrite (a_rebalance_flat BASE HBASE _ _ _ R1). exact Fl.
    + eexists. split; [reflexivity|]. split; [exact Fl|]. apply Inv_join; auto. lia.
  - assert (index = length (concat r)) by lia. subst index. rewrite (a_kwc_out r _ (Nat.le_refl _)). rewrite Nat.eqb_refl.
    rewrite nth_error_app2 by lia. rewrite !Nat.sub_diag. cbn [nth_error length].
    match goal with |- context [if ?c then _ else _] => assert (G: c = true) by (rewrite !andb_true_iff, !Nat.ltb_lt, Nat.leb_le; lia); rewrite G end.
    cbn [insert_at length].
    replace (RopeAbs.set_nth (length r) [v] (r ++ [[]])) with (r ++ [[v]]) by (symmetry; apply set_nth_mid).
    destruct (Nat.eqb_spec 1 MAX) as [Em|Em]; [lia|].
    eexists. split; [reflexivity|]. split.
    + rewrite insert_at_end, concat_app. cbn [concat]. rewrite app_nil_r. reflexivity.
    + destruct I as [B N]. split; apply Forall_app; split; try assumption; constructor; try constructor; cbn; lia.
Qed.

Theorem a_remove_ok (r: arope) index : Inv r -> index < length (flat r) ->
  exists r', a_remove r index = Some r' /\ flat r' = remove_at index (flat r) /\ Inv r'.
Proof.
  intros I Hi. unfold RopeAbs.a_remove, RopeAbs.flat in *.
  destruct (a_kwc_in r index Hi) as (pre & ch & post & -> & K & Hr). rewrite K.
  destruct (Inv_split pre ch post I) as (B1 & B2 & N1 & N2 & Hc).
  rewrite nth_error_mid. set (j := index - length (concat pre)).
  assert (G: (j <? length ch) = true) by (apply Nat.ltb_lt; subst j; lia). rewrite G. rewrite set_nth_mid.
  set (ch' := remove_at j ch).
  assert (Fl: concat (pre ++ ch' :: post) = remove_at index (concat (pre ++ ch :: post))).
  { rewrite !concat_app. cbn [concat]. replace index with (length (concat pre) + j) by (subst j; lia).
    rewrite remove_at_app_mid. f_equal. subst ch'. rewrite remove_at_app_l by (subst j; lia). reflexivity. }
  assert (Lc: length ch' = length ch - 1) by (apply length_remove_at; subst j; lia).
  destruct (Nat.leb_spec (length ch') UNDER) as [Eu|Eu].
  - assert (Bn: Bnd (pre ++ ch' :: post)) by (apply Forall_app; split; [exact B1|constructor; [lia|exact B2]]).
    destruct (a_rebalance_inv MAX BASE HBASE HBM HHIGH (pre ++ ch' :: post) (length pre - 1)) as (r' & R1 & R2).
    + unfold RopeAbsInv.Bnd in *. apply Forall_firstn'. exact Bn.
    + apply (Bnd_HeadOk MAX BASE HBASE HBM HHIGH). unfold RopeAbsInv.Bnd in *. apply Forall_skipn'. exact Bn.
    + exists r'. split; [exact R1|]. split; [|exact R2]. rewrite (a_rebalance_flat BASE HBASE _ _ _ R1). exact Fl.
  - eexists. split; [reflexivity|]. split; [exact Fl|]. apply Inv_join; auto. lia.
Qed.

Theorem a_set_ok (r: arope) index v : Inv r -> index < length (flat r) ->
  exists r', a_set r index v = Some r' /\ flat r' = update index v (flat r) /\ Inv r'.
Proof.
  intros I Hi. unfold RopeAbs.a_set, RopeAbs.flat in *.
  destruct (a_kwc_in r index Hi) as (pre & ch & post & -> & K & Hr). rewrite K.
  destruct (Inv_split pre ch post I) as (B1 & B2 & N1 & N2 & Hc).
  rewrite nth_error_mid. set (j := index - length (concat pre)).
  assert (G: (j <? length ch) = true) by (apply Nat.ltb_lt; subst j; lia). rewrite G. rewrite set_nth_mid.
  eexists. split; [reflexivity|]. split.
  - rewrite !concat_app. cbn [concat]. replace index with (length (concat pre) + j) by (subst j; lia).
    rewrite update_app_mid. f_equal. rewrite update_app_l by (subst j; lia). reflexivity.
  - apply Inv_join; auto. rewrite length_update. lia.
Qed.
End AO.
Print Assumptions a_insert_ok.
Print Assumptions a_remove_ok.
