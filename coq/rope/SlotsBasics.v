From Coq Require Import List Arith Lia Bool Permutation.
Import ListNotations.
Require Import S.Slots.

Section B.
Context {T: Type}.
Notation slot := (option (nat * T)).
Notation am := (@Slots.am T).

Definition opt_list (s: slot) : list (nat * T) := match s with Some p => [p] | None => [] end.

Lemma somes_app (a b: list slot) : somes (a ++ b) = somes a ++ somes b.
Proof. unfold somes. apply flat_map_app. Qed.
Lemma somes_cons (s: slot) l : somes (s :: l) = opt_list s ++ somes l.
Proof. destruct s; reflexivity. Qed.

Lemma set_nth_split {A} (k: nat) (x: A) (l: list A) : k < length l -> set_nth k x l = firstn k l ++ x :: skipn (S k) l.
Proof. revert k. induction l as [|y l IH]; intros [|k] H; cbn in *; try lia; [reflexivity|]. f_equal. apply IH. lia. Qed.
Lemma nth_split' {A} (k: nat) (d: A) (l: list A) : k < length l -> l = firstn k l ++ nth k l d :: skipn (S k) l.
Proof. revert k. induction l as [|y l IH]; intros [|k] H; cbn in *; try lia; [reflexivity|]. f_equal. apply IH. lia. Qed.
Lemma set_nth_length {A} k (x: A) l : length (set_nth k x l) = length l.
Proof. revert k. induction l; intros [|k]; cbn; auto. Qed.

Lemma somes_set_nth k (x: slot) (sl: list slot) : k < length sl ->
  somes (set_nth k x sl) = somes (firstn k sl) ++ opt_list x ++ somes (skipn (S k) sl).
Proof. intros H. rewrite set_nth_split by exact H. rewrite somes_app, somes_cons. reflexivity. Qed.
Lemma somes_split k (sl: list slot) : k < length sl ->
  somes sl = somes (firstn k sl) ++ opt_list (nth k sl None) ++ somes (skipn (S k) sl).
Proof. intros H. rewrite (nth_split' k None sl H) at 1. rewrite somes_app, somes_cons. reflexivity. Qed.

Lemma in_somes (sl: list slot) p : In p (somes sl) <-> In (Some p) sl.
Proof.
  unfold somes. rewrite in_flat_map. split.
  - intros [s [Hs Hp]]. destruct s as [q|]; cbn in Hp; [destruct Hp as [->|[]]; exact Hs|contradiction].
  - intros H. exists (Some p). split; [exact H|left; reflexivity].
Qed.

Lemma somes_map_idx f (sl: list slot) : somes (map_idx f sl) = map (fun p => (f (fst p), snd p)) (somes sl).
Proof. unfold somes, map_idx. induction sl as [|[[j v]|] sl IH]; cbn; [reflexivity|f_equal; exact IH|exact IH]. Qed.
Lemma map_idx_length f (sl: list slot) : length (map_idx f sl) = length sl.
Proof. apply map_length. Qed.

(* find_idx *)
Lemma find_idx_some {A} (p: A -> bool) (l: list A) k (d: A) : find_idx p l = Some k ->
  k < length l /\ p (nth k l d) = true /\ forall j, j < k -> p (nth j l d) = false.
Proof.
  revert k. induction l as [|x l IH]; intros k H; [discriminate|]. cbn in H. destruct (p x) eqn:E.
  - injection H as <-. cbn. repeat split; [lia|exact E|intros j Hj; lia].
  - destruct (find_idx p l) as [k'|] eqn:F; [|discriminate]. injection H as <-. destruct (IH k' eq_refl) as (A1 & A2 & A3).
    cbn. repeat split; [lia|exact A2|]. intros [|j] Hj; [exact E|apply A3; lia].
Qed.
Lemma find_idx_none {A} (p: A -> bool) (l: list A) : find_idx p l = None <-> forall x, In x l -> p x = false.
Proof.
  induction l as [|x l IH]; cbn; [split; [intros _ y []|reflexivity]|]. destruct (p x) eqn:E.
  - split; [discriminate|intros H; specialize (H x (or_introl eq_refl)); congruence].
  - destruct (find_idx p l) eqn:F; cbn.
    + split; [discriminate|]. intros H. assert (C: Some n = None) by (apply IH; intros y Hy; apply H; right; exact Hy). discriminate C.
    + split; [|reflexivity]. intros _ y [<-|Hy]; [exact E|]. apply (proj1 IH eq_refl). exact Hy.
Qed.

(* abstraction relation *)
Definition Rep (N: nat) (m: am) (l: list T) : Prop :=
  length (slots m) = N /\ cnt m = length l /\
  NoDup (map fst (somes (slots m))) /\
  (forall i v, In (i, v) (somes (slots m)) <-> nth_error l i = Some v).

Lemma Rep_idx_lt N m l i v : Rep N m l -> In (i, v) (somes (slots m)) -> i < length l.
Proof. intros (_ & _ & _ & H) Hin. apply H in Hin. apply nth_error_Some. congruence. Qed.

Lemma Rep_unique N m l i v w : Rep N m l -> In (i, v) (somes (slots m)) -> In (i, w) (somes (slots m)) -> v = w.
Proof. intros (_ & _ & _ & H) H1 H2. apply H in H1. apply H in H2. congruence. Qed.

(* number of occupied slots = length l *)
Lemma Rep_somes_length N m l : Rep N m l -> length (somes (slots m)) = length l.
Proof.
  intros (HN & Hc & Hnd & Hin).
  assert (P: Permutation (map fst (somes (slots m))) (seq 0 (length l))).
  { apply NoDup_Permutation; [exact Hnd|apply seq_NoDup|]. intros i. rewrite in_seq. split.
    - intros Hi. apply in_map_iff in Hi. destruct Hi as [[j v] [<- Hjv]]. apply Hin in Hjv. cbn.
      assert (j < length l) by (apply nth_error_Some; congruence). lia.
    - intros Hi. destruct (nth_error l i) as [v|] eqn:E; [|apply nth_error_None in E; lia].
      apply in_map_iff. exists (i, v). split; [reflexivity|apply Hin; exact E]. }
  apply Permutation_length in P. rewrite map_length, seq_length in P. exact P.
Qed.

(* has_idx lookups *)
Lemma has_idx_true i (s: slot) : has_idx i s = true <-> exists v, s = Some (i, v).
Proof. destruct s as [[j v]|]; cbn; [|split; [discriminate|intros [v H]; discriminate]]. rewrite Nat.eqb_eq. split; [intros ->; eauto|intros [w [= -> _]]; reflexivity]. Qed.

Lemma index_refines N m l i : Rep N m l -> am_index m i = nth_error l i.
Proof.
  intros R. pose proof R as (HN & Hc & Hnd & Hin). unfold am_index.
  destruct (find (has_idx i) (slots m)) as [s|] eqn:F.
  - apply find_some in F. destruct F as [F1 F2]. apply has_idx_true in F2. destruct F2 as [v ->].
    apply in_somes in F1. apply Hin in F1. symmetry. exact F1.
  - destruct (nth_error l i) as [v|] eqn:E; [|reflexivity]. apply Hin in E. apply in_somes in E.
    pose proof (find_none _ _ F _ E) as C. cbn in C. rewrite Nat.eqb_refl in C. discriminate.
Qed.
End B.
