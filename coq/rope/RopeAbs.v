(* Abstract rope: chunks are plain lists; mirrors the control flow of Rope.v / rope/mod.rs *)
From Coq Require Import List Arith Lia Bool.
Import ListNotations.
Require Import S.ListOps.

Section A.
Context {T: Type}.
Variables (MAX BASE UNDER: nat).
Definition LOW := BASE - BASE / 2.
Definition HIGH := BASE + BASE / 2.
Notation chunk := (list T).
Definition arope := list chunk.

Definition is_nil {A} (l: list A) := match l with [] => true | _ => false end.

Fixpoint a_kwc_from (r: arope) (idx index seen: nat) : nat * nat :=
  match r with
  | [] => (idx, seen)
  | c :: r' => let seen' := seen + length c in if index <? seen' then (idx, seen) else a_kwc_from r' (S idx) index seen'
  end.
Definition a_kwc (r: arope) (index: nat) := a_kwc_from r 0 index 0.
Definition a_kwc_from_prev (r: arope) (index prev seen: nat) : nat * nat :=
  if index <? seen then (prev, seen) else a_kwc_from (skipn prev r) prev index seen.

Fixpoint a_pull (hold: chunk) (rest: list chunk) : chunk * list chunk :=
  match rest with
  | [] => (hold, [])
  | c :: rest' =>
     if length hold =? BASE then (hold, rest)
     else let k := Nat.min (BASE - length hold) (length c) in
          let '(h, r) := a_pull (hold ++ firstn k c) rest' in (h, skipn k c :: r)
  end.

Fixpoint a_reb_loop (fuel: nat) (done_rev: list chunk) (rest: list chunk) (carry: list T) : list chunk * list T :=
  match fuel with 0 => (rev done_rev ++ rest, carry) | S fuel =>
  match rest with
  | [] => (rev done_rev, carry)
  | entry :: rest' =>
    if is_nil entry then a_reb_loop fuel (entry :: done_rev) rest' carry
    else if (LOW <=? length entry) && (length entry <=? HIGH) && is_nil carry then (rev done_rev ++ rest, carry)
    else
      let n := length entry in
      if n <? BASE then
        let '(hold, carry') := if is_nil carry then (entry, carry) else let c := carry ++ entry in (firstn BASE c, skipn BASE c) in
        let '(hold', rest'') := a_pull hold rest' in
        a_reb_loop fuel (hold' :: done_rev) rest'' carry'
      else if (n =? BASE) && is_nil carry then a_reb_loop fuel (entry :: done_rev) rest' carry
      else if negb (is_nil carry) then
        let c := carry ++ entry in a_reb_loop fuel (firstn BASE c :: done_rev) rest' (skipn BASE c)
      else a_reb_loop fuel (firstn BASE entry :: done_rev) rest' (carry ++ skipn BASE entry)
  end end.

Fixpoint a_chunks_of (fuel: nat) (carry: list T) : list chunk :=
  match fuel with 0 => [] | S f =>
    if BASE <? length carry then firstn BASE carry :: a_chunks_of f (skipn BASE carry)
    else match carry with [] => [] | _ => [carry] end
  end.

Definition a_rebalance (r: arope) (start: nat) : option arope :=
  let '(chunks, carry) := a_reb_loop (S (length r)) (rev (firstn start r)) (skipn start r) [] in
  let kept := filter (fun c => negb (is_nil c)) chunks in
  match carry with
  | [] => Some kept
  | _ =>
    match rev kept with
    | [] => None
    | last :: init_rev =>
       let k := Nat.min (BASE - length last) (length carry) in
       Some (rev init_rev ++ [last ++ firstn k carry] ++ a_chunks_of (S (length carry)) (skipn k carry))
    end
  end.

Fixpoint set_nth {A} (n: nat) (x: A) (l: list A) : list A :=
  match n, l with _, [] => [] | 0, _ :: l' => x :: l' | S n', y :: l' => y :: set_nth n' x l' end.

(* None = a panic of the implementation (full chunk, out-of-range position) *)
Definition a_insert (r: arope) (index: nat) (v: T) : option arope :=
  let '(k, c) := a_kwc r index in
  let r1 := if k =? length r then r ++ [[]] else r in
  match nth_error r1 k with
  | None => None
  | Some ch =>
     if (index - c <? MAX) && (length ch <? MAX) && (index - c <=? length ch) then
       let ch' := insert_at (index - c) v ch in
       let r2 := set_nth k ch' r1 in
       if length ch' =? MAX then a_rebalance r2 k else Some r2
     else None
  end.

Definition a_remove (r: arope) (index: nat) : option arope :=
  let '(k, c) := a_kwc r index in
  match nth_error r k with
  | None => None
  | Some ch =>
     if index - c <? length ch then
       let ch' := remove_at (index - c) ch in
       let r2 := set_nth k ch' r in
       if length ch' <=? UNDER then a_rebalance r2 (k - 1) else Some r2
     else None
  end.

Definition a_drain (r: arope) (l_idx r_idx: nat) : option arope :=
  let '(lk, lc) := a_kwc r l_idx in
  let '(rk, rc) := a_kwc_from_prev r r_idx lk lc in
  if lk =? rk then
    match nth_error r lk with
    | None => None
    | Some ch =>
       if (l_idx - lc <=? S (r_idx - lc)) && (S (r_idx - lc) <=? length ch) then
         let ch' := firstn (l_idx - lc) ch ++ skipn (S (r_idx - lc)) ch in
         let r2 := set_nth lk ch' r in
         if length ch' <=? UNDER then a_rebalance r2 (lk - 1) else Some r2
       else None
    end
  else
    match nth_error r lk, nth_error r rk with
    | Some lch, Some rch =>
       if (l_idx - lc <=? length lch) && (S (r_idx - rc) <=? length rch) then
         let lch' := firstn (l_idx - lc) lch in
         let rch' := skipn (S (r_idx - rc)) rch in
         let r2 := firstn lk r ++ [lch'] ++ [rch'] ++ skipn (S rk) r in
         if (length lch' <=? UNDER) || (length rch' <=? UNDER) then a_rebalance r2 lk else Some r2
       else None
    | _, _ => None
    end.

Definition a_set (r: arope) (index: nat) (v: T) : option arope :=
  let '(k, c) := a_kwc r index in
  match nth_error r k with
  | Some ch => if index - c <? length ch then Some (set_nth k (update (index - c) v ch) r) else None
  | None => None
  end.

Definition flat (r: arope) : list T := concat r.
End A.
