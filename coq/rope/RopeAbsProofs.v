From Coq Require Import List Arith Lia Bool.
Import ListNotations.
Require Import S.ListOps S.RopeAbs.

Arguments RopeAbs.a_chunks_of : simpl never.

Section AP.
Context {T: Type}.
Variables (MAX BASE UNDER: nat).
Notation chunk := (list T).
Notation arope := (list (list T)).
Notation a_pull := (@RopeAbs.a_pull T BASE).
Notation a_reb_loop := (@RopeAbs.a_reb_loop T BASE).
Notation a_rebalance := (@RopeAbs.a_rebalance T BASE).
Notation a_chunks_of := (@RopeAbs.a_chunks_of T BASE).
Notation LOW := (RopeAbs.LOW BASE).
Notation HIGH := (RopeAbs.HIGH BASE).

Lemma is_nil_true {A} (l: list A) : is_nil l = true -> l = [].
Proof. destruct l; [reflexivity|discriminate]. Qed.
Lemma is_nil_false {A} (l: list A) : is_nil l = false -> l <> [].
Proof. destruct l; [discriminate|intros _; discriminate]. Qed.

(* ---------- lookup ---------- *)
Lemma a_kwc_from_spec : forall (r: arope) idx index seen, seen <= index ->
  let '(k, c) := a_kwc_from r idx index seen in
  (index < seen + length (concat r) ->
     exists pre ch post, r = pre ++ ch :: post /\ k = idx + length pre /\ c = seen + length (concat pre) /\ c <= index < c + length ch)
  /\ (seen + length (concat r) <= index -> k = idx + length r /\ c = seen + length (concat r)).
Proof.
  induction r as [|ch r IH]; intros idx index seen Hs; cbn [a_kwc_from].
  - cbn. split; [lia|intros _; split; lia].
  - destruct (Nat.ltb_spec index (seen + length ch)) as [Hlt|Hge].
    + split; [|cbn [concat]; rewrite app_length; lia]. intros _. exists [], ch, r. cbn. repeat split; lia.
    + specialize (IH (S idx) index (seen + length ch) Hge). destruct (a_kwc_from r (S idx) index (seen + length ch)) as [k c].
      destruct IH as [I1 I2]. cbn [concat]. rewrite app_length. split.
      * intros H. destruct (I1 ltac:(lia)) as (pre & c0 & post & -> & -> & -> & Hr). exists (ch :: pre), c0, post. cbn [app length concat]. rewrite app_length. repeat split; lia.
      * intros H. destruct (I2 ltac:(lia)) as [-> ->]. cbn [length]. split; lia.
Qed.

Lemma a_kwc_in (r: arope) index : index < length (concat r) ->
  exists pre ch post, r = pre ++ ch :: post /\ a_kwc r index = (length pre, length (concat pre)) /\ length (concat pre) <= index < length (concat pre) + length ch.
Proof.
  intros H. unfold a_kwc. pose proof (a_kwc_from_spec r 0 index 0 ltac:(lia)) as S0. destruct (a_kwc_from r 0 index 0) as [k c].
  destruct S0 as [S1 _]. destruct (S1 ltac:(lia)) as (pre & ch & post & -> & -> & -> & Hr). exists pre, ch, post. repeat split; lia.
Qed.
Lemma a_kwc_out (r: arope) index : length (concat r) <= index -> a_kwc r index = (length r, length (concat r)).
Proof.
  intros H. unfold a_kwc. pose proof (a_kwc_from_spec r 0 index 0 ltac:(lia)) as S0. destruct (a_kwc_from r 0 index 0) as [k c].
  destruct S0 as [_ S2]. destruct (S2 ltac:(lia)) as [-> ->]. reflexivity.
Qed.

(* ---------- rebalance keeps the flattened sequence ---------- *)
Lemma pull_full hold rest : length hold = BASE -> a_pull hold rest = (hold, rest).
Proof. intros H. destruct rest; cbn; [reflexivity|]. rewrite H, Nat.eqb_refl. reflexivity. Qed.

Lemma pull_concat : forall rest hold h r, length hold <= BASE -> a_pull hold rest = (h, r) ->
  h ++ concat r = hold ++ concat rest /\ length r = length rest /\ length h <= BASE /\ length hold <= length h
  /\ Forall2 (fun c' c => length c' <= length c) r rest.
Proof.
  induction rest as [|c rest IH]; intros hold h r Hh H; cbn in H.
  - injection H as <- <-. repeat split; auto.
  - destruct (length hold =? BASE) eqn:Eb.
    { injection H as <- <-. repeat split; auto. clear. induction (c :: rest); constructor; auto. }
    apply Nat.eqb_neq in Eb.
    set (k := Nat.min (BASE - length hold) (length c)) in *.
    destruct (a_pull (hold ++ firstn k c) rest) as [h' r'] eqn:E. injection H as <- <-.
    assert (Hk: length (hold ++ firstn k c) = length hold + k).
    { rewrite app_length, firstn_length. subst k. lia. }
    destruct (Nat.eq_dec k (length c)) as [Ek|Ek].
    + assert (Hle: length (hold ++ firstn k c) <= BASE) by (rewrite Hk; subst k; lia).
      destruct (IH _ _ _ Hle E) as (I1 & I2 & I3 & I4 & I5). split; [|split; [cbn; lia|split; [exact I3|split; [lia|]]]].
      * cbn [concat]. rewrite skipn_all2 by lia. cbn [app]. rewrite I1.
        rewrite <- app_assoc. f_equal. rewrite firstn_all2 by lia. reflexivity.
      * constructor; [rewrite skipn_length; lia|exact I5].
    + assert (Hf: length (hold ++ firstn k c) = BASE) by (rewrite Hk; subst k; lia).
      rewrite (pull_full _ rest Hf) in E. injection E as <- <-. split; [|split; [cbn; lia|split; [lia|split; [lia|]]]].
      * cbn [concat]. rewrite <- !app_assoc. f_equal. rewrite app_assoc. rewrite firstn_skipn. reflexivity.
      * constructor; [rewrite skipn_length; lia|]. clear. induction rest; constructor; auto.
Qed.

Lemma reb_loop_concat : forall fuel done_rev rest carry chunks carry',
  length rest <= fuel ->
  a_reb_loop fuel done_rev rest carry = (chunks, carry') ->
  concat chunks ++ carry' = concat (rev done_rev) ++ carry ++ concat rest.
Proof.
  induction fuel as [|fuel IH]; intros done_rev rest carry chunks carry' Hf H; cbn [RopeAbs.a_reb_loop] in H.
  - destruct rest; [|cbn in Hf; lia]. injection H as <- <-. rewrite !app_nil_r. reflexivity.
  - destruct rest as [|entry rest]; [injection H as <- <-; rewrite app_nil_r; reflexivity|].
    cbn in Hf. destruct (is_nil entry) eqn:En.
    { apply is_nil_true in En. subst entry. apply IH in H; [|lia]. rewrite H. cbn [rev concat]. rewrite concat_app. cbn. rewrite !app_nil_r. reflexivity. }
    destruct ((LOW <=? length entry) && (length entry <=? HIGH) && is_nil carry) eqn:Eb.
    { apply andb_true_iff in Eb. destruct Eb as [_ Ec]. apply is_nil_true in Ec. subst carry. injection H as <- <-.
      rewrite concat_app. rewrite app_nil_r. reflexivity. }
    clear Eb. destruct (length entry <? BASE) eqn:El.
    + destruct (is_nil carry) eqn:Ec.
      * apply is_nil_true in Ec. subst carry.
        destruct (a_pull entry rest) as [hold' rest''] eqn:Ep.
        apply Nat.ltb_lt in El. assert (Hel: length entry <= BASE) by lia.
        destruct (pull_concat _ _ _ _ Hel Ep) as (P1 & P2 & _).
        apply IH in H; [|lia]. rewrite H. cbn [rev]. rewrite concat_app. cbn [concat app]. rewrite app_nil_r.
        rewrite <- !app_assoc. f_equal. cbn [app]. exact P1.
      * set (c := carry ++ entry) in *.
        destruct (a_pull (firstn BASE c) rest) as [hold' rest''] eqn:Ep.
        assert (Hfl: length (firstn BASE c) <= BASE) by (rewrite firstn_length; lia).
        destruct (pull_concat _ _ _ _ Hfl Ep) as (P1 & P2 & _).
        apply IH in H; [|lia]. rewrite H. cbn [rev]. rewrite concat_app. cbn [concat app]. rewrite app_nil_r.
        destruct (Nat.le_gt_cases (length c) BASE) as [Hc|Hc].
        -- rewrite skipn_all2 by lia. cbn [app]. rewrite <- !app_assoc. f_equal. rewrite P1. rewrite firstn_all2 by lia. subst c. rewrite <- app_assoc. reflexivity.
        -- assert (Hfull: length (firstn BASE c) = BASE) by (rewrite firstn_length; lia).
           rewrite (pull_full _ rest Hfull) in Ep. injection Ep as <- <-.
           rewrite <- !app_assoc. f_equal. rewrite (app_assoc (firstn BASE c)). rewrite firstn_skipn. subst c. rewrite <- app_assoc. reflexivity.
    + destruct ((length entry =? BASE) && is_nil carry) eqn:Ee.
      * apply andb_true_iff in Ee. destruct Ee as [_ Ec]. apply is_nil_true in Ec. subst carry.
        apply IH in H; [|lia]. rewrite H. cbn [rev]. rewrite concat_app. cbn. rewrite app_nil_r, <- app_assoc. reflexivity.
      * destruct (negb (is_nil carry)) eqn:Ec.
        -- apply IH in H; [|lia]. rewrite H. cbn [rev]. rewrite concat_app. cbn [concat app]. rewrite app_nil_r.
           rewrite <- !app_assoc. f_equal. rewrite (app_assoc (firstn BASE (carry ++ entry))). rewrite firstn_skipn. rewrite <- app_assoc. reflexivity.
        -- apply negb_false_iff in Ec. apply is_nil_true in Ec. subst carry.
           apply IH in H; [|lia]. rewrite H. cbn [rev]. rewrite concat_app. cbn [concat app]. rewrite app_nil_r.
           rewrite <- !app_assoc. f_equal. rewrite (app_assoc (firstn BASE entry)). rewrite firstn_skipn. reflexivity.
Qed.

Lemma concat_filter_nonnil (r: arope) : concat (filter (fun c => negb (is_nil c)) r) = concat r.
Proof. induction r as [|c r IH]; [reflexivity|]. cbn [filter]. destruct c; cbn; [exact IH|]. f_equal. rewrite <- IH. reflexivity. Qed.

Lemma concat_single (x: list T) : concat [x] = x.
Proof. cbn. apply app_nil_r. Qed.

Hypothesis HBASE : 1 <= BASE.
Lemma chunks_of_S f (carry: list T) : a_chunks_of (S f) carry =
  if BASE <? length carry then firstn BASE carry :: a_chunks_of f (skipn BASE carry) else match carry with [] => [] | _ => [carry] end.
Proof. reflexivity. Qed.
Lemma chunks_of_concat : forall fuel carry, length carry < fuel -> concat (a_chunks_of fuel carry) = carry.
Proof.
  induction fuel as [|fuel IH]; intros carry H; [lia|]. rewrite chunks_of_S.
  destruct (Nat.ltb_spec BASE (length carry)).
  - cbn [concat]. rewrite IH by (rewrite skipn_length; lia). apply firstn_skipn.
  - destruct carry; [reflexivity|]. cbn. rewrite app_nil_r. reflexivity.
Qed.

Theorem a_rebalance_flat (r: arope) start r' : a_rebalance r start = Some r' -> concat r' = concat r.
Proof.
  unfold RopeAbs.a_rebalance. destruct (a_reb_loop (S (length r)) (rev (firstn start r)) (skipn start r) []) as [chunks carry] eqn:E.
  apply reb_loop_concat in E; [|rewrite skipn_length; lia]. rewrite rev_involutive in E. cbn [app] in E.
  rewrite <- concat_app, firstn_skipn in E.
  destruct carry as [|x carry].
  - intros [= <-]. rewrite concat_filter_nonnil. rewrite app_nil_r in E. exact E.
  - destruct (rev (filter (fun c => negb (is_nil c)) chunks)) as [|last init_rev] eqn:Er; [discriminate|].
    intros [= <-]. rewrite <- E, <- (concat_filter_nonnil chunks).
    assert (Ek: filter (fun c => negb (is_nil c)) chunks = rev init_rev ++ [last]).
    { rewrite <- (rev_involutive (filter _ chunks)), Er. reflexivity. }
    rewrite Ek. rewrite !concat_app. rewrite !concat_single. rewrite concat_cons.
    rewrite chunks_of_concat by (rewrite skipn_length; cbn [length]; lia).
    rewrite <- !app_assoc. f_equal. f_equal. apply firstn_skipn.
Qed.
End AP.
Print Assumptions a_rebalance_flat.
