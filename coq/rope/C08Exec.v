(* C08: executing ANY well-formed ordered script on the rope (from_iter; one rope operation per change; into_iter) = executing it on a plain list *)
From Coq Require Import List Arith Lia Bool Permutation.
Import ListNotations.
Require Import S.ListOps S.Slots S.SlotsBasics S.SlotsOps S.SlotsInsert S.SlotsSort S.SlotsDrain S.SlotsExtend S.SlotsSwap.
Require Import S.RopeAbs S.RopeAbsProofs S.RopeAbsInv S.RopeAbsOps S.RopeAbsDrain S.RopePhys S.RopeSim1 S.RopeSim2 S.RopeSim3 S.RopeSwap S.RopeSim4 S.RopeIter.

Section E.
Context {T: Type}.
Variables (MAX BASE UNDER FIC: nat).
Hypothesis HB1 : 1 <= BASE.
Hypothesis HBM1 : BASE <= MAX - 1.
Hypothesis HHIGH : RopeAbs.HIGH BASE <= MAX - 1.
Hypothesis HFIC : 1 <= FIC <= MAX - 1.

(* the script language and its "plain growable array" semantics (as in the ordered model) *)
Inductive change := CReplace (v: T) (i: nat) | CInsert (v: T) (i: nat) | CDelete (i: nat) (r: option nat) | CSwap (a b: nat).
Definition apply_change (l: list T) (c: change) : option (list T) :=
  match c with
  | CReplace v i => if i <? length l then Some (update i v l) else None
  | CInsert v i => if i <=? length l then Some (insert_at i v l) else None
  | CDelete i None => if i <? length l then Some (remove_at i l) else None
  | CDelete a (Some b) => if (a <=? b) && (b <? length l) then Some (firstn a l ++ skipn (S b) l) else None
  | CSwap a b => match nth_error l a, nth_error l b with Some x, Some y => Some (update a y (update b x l)) | _, _ => None end
  end.
Fixpoint apply_script (l: list T) (cs: list change) : option (list T) :=
  match cs with [] => Some l | c :: cs' => match apply_change l c with Some l' => apply_script l' cs' | None => None end end.

(* OrderedArrayLikeChangeOwned::apply on the rope *)
Definition rope_change (r: list (@am T)) (c: change) : option (list (@am T)) :=
  match c with
  | CReplace v i => rope_set r i v
  | CInsert v i => rope_insert MAX BASE r i v
  | CDelete i None => rope_remove MAX BASE UNDER r i
  | CDelete a (Some b) => rope_drain MAX BASE UNDER r a b
  | CSwap a b => rope_swap r a b
  end.
Fixpoint rope_script (r: list (@am T)) (cs: list change) : option (list (@am T)) :=
  match cs with [] => Some r | c :: cs' => match rope_change r c with Some r' => rope_script r' cs' | None => None end end.
Definition rope_exec (l: list T) (cs: list change) : option (list T) :=
  match rope_from_list MAX FIC l with Some r => match rope_script r cs with Some r' => Some (rope_to_list r') | None => None end | None => None end.

Definition to_lop (c: change) : @RopeSim4.lop T :=
  match c with CReplace v i => LSet i v | CInsert v i => LInsert i v | CDelete i None => LRemove i | CDelete a (Some b) => LDrain a b | CSwap a b => LSwap a b end.

Lemma update_comm (l: list T) a b x y : a <> b -> update a y (update b x l) = update b x (update a y l).
Proof. revert a b. induction l as [|z l IH]; intros [|a] [|b] H; cbn; try reflexivity; try congruence. f_equal. apply IH. congruence. Qed.
Lemma update_update (l: list T) a x y : update a y (update a x l) = update a y l.
Proof. revert a. induction l as [|z l IH]; intros [|a]; cbn; try reflexivity. f_equal. apply IH. Qed.

(* the two readings of one change coincide on the list side *)
Lemma change_as_lop l c l' : apply_change l c = Some l' -> RopeSim4.in_range l (to_lop c) /\ RopeSim4.list_step l (to_lop c) = l'.
Proof.
  destruct c as [v i|v i|i [b|]|a b]; cbn [apply_change to_lop RopeSim4.in_range RopeSim4.list_step].
  - destruct (Nat.ltb_spec i (length l)); [|discriminate]. intros [= <-]. auto.
  - destruct (Nat.leb_spec i (length l)); [|discriminate]. intros [= <-]. auto.
  - destruct (Nat.leb_spec i b); cbn [andb]; [|discriminate]. destruct (Nat.ltb_spec b (length l)); [|discriminate]. intros [= <-]. split; [lia|reflexivity].
  - destruct (Nat.ltb_spec i (length l)); [|discriminate]. intros [= <-]. auto.
  - destruct (nth_error l a) as [x|] eqn:Ea; [|discriminate]. destruct (nth_error l b) as [y|] eqn:Eb; [|discriminate]. intros [= <-].
    assert (La: a < length l) by (apply nth_error_Some; congruence). assert (Lb: b < length l) by (apply nth_error_Some; congruence).
    split; [auto|]. unfold swap_list. destruct (Nat.le_ge_cases a b) as [H|H].
    + rewrite Nat.min_l, Nat.max_r by lia. rewrite Ea, Eb. reflexivity.
    + rewrite Nat.min_r, Nat.max_l by lia. rewrite Ea, Eb. destruct (Nat.eq_dec a b) as [->|Hne]; [congruence|]. apply update_comm. lia.
Qed.
Lemma rope_change_step r c : rope_change r c = RopeSim4.phys_step MAX BASE UNDER r (to_lop c).
Proof. destruct c as [v i|v i|i [b|]|a b]; reflexivity. Qed.

Theorem script_exec_list_semantics : forall l cs l', apply_script l cs = Some l' -> rope_exec l cs = Some l'.
Proof.
  intros l cs l' H. unfold rope_exec.
  destruct (build_from_list MAX FIC (proj1 HFIC) (proj2 HFIC) l) as (r0 & ls0 & B & R0 & I0 & C0). rewrite B.
  assert (G: forall cs0 r ls l1', RopeSim1.RopeRep MAX r ls -> RopeAbsInv.Inv MAX ls -> apply_script (concat ls) cs0 = Some l1' ->
             exists r', rope_script r cs0 = Some r' /\ rope_to_list r' = l1').
  { clear H. intros cs0. induction cs0 as [|c cs0 IH]; intros r ls l1' R I H.
    - cbn in H. injection H as <-. exists r. split; [reflexivity|]. apply (to_list_sim MAX r ls R).
    - cbn [apply_script] in H. destruct (apply_change (concat ls) c) as [l1|] eqn:E; [|discriminate].
      destruct (change_as_lop _ _ _ E) as [Hr Hl].
      destruct (rope_step_ok MAX BASE UNDER HB1 HBM1 HHIGH r ls (to_lop c) R I Hr) as (r1 & ls1 & S1 & S2 & S3 & S4).
      cbn [rope_script]. rewrite rope_change_step, S1. apply (IH r1 ls1 l1' S2 S3). rewrite S4, Hl. exact H. }
  rewrite <- C0 in H. destruct (G cs r0 ls0 l' R0 I0 H) as (r' & E1 & E2). rewrite E1, E2. reflexivity.
Qed.
End E.
Print Assumptions script_exec_list_semantics.
