From Coq Require Import List Arith Lia Bool Permutation.
Import ListNotations.
Require Import S.ListOps S.Slots S.SlotsBasics S.SlotsOps S.SlotsSort.

Section D.
Context {T: Type}.
Notation slot := (option (nat * T)).
Notation am := (@Slots.am T).

Theorem to_list_rep N (m: am) (l: list T) : Rep N m l -> am_to_list m = l.
Proof.
  intros (HN & Hc & Hnd & Hin). unfold am_to_list.
  rewrite (sorted_values l (somes (slots m)) 0 (length l)); [cbn [skipn]; apply firstn_all|exact Hnd| |lia].
  intros i v. rewrite Hin. split; [intros H; split; [|exact H]; assert (i < length l) by (apply nth_error_Some; congruence); lia|tauto].
Qed.

(* keeping / removing by a predicate on the logical index *)
Definition keep_if (p: nat -> bool) (sl: list slot) : list slot :=
  map (fun s => match s with Some (j, v) => if p j then None else Some (j, v) | None => None end) sl.
Lemma somes_keep_if p (sl: list slot) : somes (keep_if p sl) = filter (fun q => negb (p (fst q))) (somes sl).
Proof. unfold somes, keep_if. induction sl as [|[[j v]|] sl IH]; cbn; [reflexivity| |exact IH]. destruct (p j); cbn; [exact IH|f_equal; exact IH]. Qed.

Lemma fold_max_in (ks: list nat) : forall a, In (fold_left Nat.max ks a) (a :: ks) /\ (forall k, In k (a :: ks) -> k <= fold_left Nat.max ks a).
Proof.
  induction ks as [|k ks IH]; intros a; cbn [fold_left].
  - split; [left; reflexivity|intros k [<-|[]]; lia].
  - destruct (IH (Nat.max a k)) as [I1 I2]. split.
    + destruct I1 as [E|I1]; [|right; right; exact I1]. rewrite <- E. destruct (Nat.max_spec a k) as [[_ M]|[_ M]]; rewrite M; [right; left|left]; reflexivity.
    + intros x Hx. destruct Hx as [Hx|[Hx|Hx]].
      * subst x. specialize (I2 (Nat.max a k) (or_introl eq_refl)). lia.
      * subst x. specialize (I2 (Nat.max a k) (or_introl eq_refl)). lia.
      * apply I2. right. exact Hx.
Qed.

Definition hi_of (hi: option nat) (len: nat) := match hi with Some h => h | None => len end.

Lemma nth_error_outside (l: list T) lo h : lo <= h <= length l -> forall i v,
  nth_error (firstn lo l ++ skipn h l) i = Some v <->
  (i < lo /\ nth_error l i = Some v) \/ (lo <= i /\ nth_error l (i + (h - lo)) = Some v).
Proof.
  intros Hh i v. destruct (Nat.lt_ge_cases i lo) as [Hi|Hi].
  - rewrite nth_error_app1 by (rewrite firstn_length; lia). rewrite nth_error_firstn by lia. split; [intros H; left; auto|intros [[_ H]|[H _]]; [exact H|lia]].
  - rewrite nth_error_app2 by (rewrite firstn_length; lia). rewrite firstn_length, nth_error_skipn.
    replace (h + (i - Nat.min lo (length l))) with (i + (h - lo)) by lia.
    split; [intros H; right; auto|intros [[H _]|[_ H]]; [lia|exact H]].
Qed.

Theorem drain_refines N (m: am) (l: list T) lo hi :
  Rep N m l -> lo <= hi_of hi (length l) <= length l ->
  let h := hi_of hi (length l) in
  Rep N (fst (am_drain m lo hi)) (firstn lo l ++ skipn h l) /\ snd (am_drain m lo hi) = firstn (h - lo) (skipn lo l).
Proof.
  intros R Hh h. pose proof R as (HN & Hc & Hnd & Hin).
  set (rng := fun j => in_range lo hi j).
  assert (Rng: forall j, j < length l -> rng j = true <-> lo <= j < h).
  { intros j Hj. subst rng h. unfold in_range, hi_of in *. destruct hi as [hh|].
    - rewrite andb_true_iff, Nat.leb_le, Nat.ltb_lt. lia.
    - rewrite andb_true_iff, Nat.leb_le. split; [intros [H _]; lia|intros H; split; [lia|reflexivity]]. }
  set (removed := filter (fun p => in_range lo hi (fst p)) (somes (slots m))).
  assert (Rem: forall i v, In (i, v) removed <-> lo <= i < lo + (h - lo) /\ nth_error l i = Some v).
  { intros i v. subst removed. rewrite filter_In. cbn [fst]. rewrite Hin. split.
    - intros [H1 H2]. assert (i < length l) by (apply nth_error_Some; congruence). apply (Rng i H) in H2. split; [lia|exact H1].
    - intros [H1 H2]. assert (i < length l) by (apply nth_error_Some; congruence). split; [exact H2|]. apply (Rng i H). lia. }
  assert (NdR: NoDup (map fst removed)).
  { subst removed. clear - Hnd. induction (somes (slots m)) as [|[j v] L IH]; cbn; [constructor|]. inversion Hnd; subst.
    destruct (in_range lo hi j); cbn; [constructor; [|apply IH; assumption]|apply IH; assumption].
    intros H. apply H1. apply in_map_iff in H. destruct H as [q [E Hq]]. apply filter_In in Hq. apply in_map_iff. exists q. tauto. }
  assert (Vals: map snd (sort_by_idx removed) = firstn (h - lo) (skipn lo l)) by (apply sorted_values; [exact NdR|exact Rem|lia]).
  assert (LenR: length removed = h - lo).
  { rewrite <- (map_length snd), <- (Permutation_length (Permutation_map snd (sort_by_idx_perm removed))), Vals, firstn_length, skipn_length. lia. }
  assert (Kept: somes (keep_if rng (slots m)) = filter (fun q => negb (rng (fst q))) (somes (slots m))) by apply somes_keep_if.
  unfold am_drain. fold removed. change (map _ (slots m)) with (keep_if rng (slots m)).
  destruct removed as [|r0 rs] eqn:Er.
  - (* nothing in range: h = lo *)
    cbn [length] in LenR. assert (h = lo) by lia. cbn [fst snd]. replace (h - lo) with 0 by lia. cbn [firstn]. split; [|reflexivity].
    assert (NoRng: forall q, In q (somes (slots m)) -> rng (fst q) = false).
    { intros [j v] Hq. cbn [fst]. destruct (rng j) eqn:E; [|reflexivity]. exfalso. assert (In (j, v) (@nil (nat * T))); [|contradiction].
      rewrite <- Er. subst removed. apply filter_In. split; [exact Hq|exact E]. }
    assert (Kall: somes (keep_if rng (slots m)) = somes (slots m)).
    { rewrite Kept. clear - NoRng. induction (somes (slots m)) as [|q L IH]; [reflexivity|]. cbn. rewrite (NoRng q (or_introl eq_refl)). cbn. f_equal. apply IH. intros q' Hq'. apply NoRng. right. exact Hq'. }
    replace (firstn lo l ++ skipn h l) with l by (rewrite H; symmetry; apply firstn_skipn).
    repeat split; cbn [slots cnt]; [unfold keep_if; rewrite map_length; exact HN|exact Hc|rewrite Kall; exact Hnd|rewrite Kall; apply Hin|rewrite Kall; apply Hin].
  - assert (Hlen1: 1 <= length (r0 :: rs)) by (cbn; lia).
    rewrite <- Er in *. clear Er. cbn [fst snd]. split; [|exact Vals].
    set (mx := fold_left Nat.max (map fst removed) 0).
    assert (Hlt: lo < h) by lia.
    assert (Mx: mx = h - 1).
    { destruct (fold_max_in (map fst removed) 0) as [M1 M2]. fold mx in M1, M2.
      assert (In (h - 1) (map fst removed)).
      { destruct (nth_error l (h - 1)) as [v|] eqn:E; [|apply nth_error_None in E; lia]. apply in_map_iff. exists (h - 1, v). split; [reflexivity|apply Rem; split; [lia|exact E]]. }
      specialize (M2 (h - 1) (or_intror H)). destruct M1 as [M1|M1]; [lia|]. apply in_map_iff in M1. destruct M1 as [[j v] [E Hj]]. cbn in E. subst j. apply Rem in Hj. lia. }
    set (k := length removed). set (shift := fun j => if mx <? j then j - k else j).
    assert (Snew: somes (map_idx shift (keep_if rng (slots m))) = map (fun p => (shift (fst p), snd p)) (filter (fun q => negb (rng (fst q))) (somes (slots m)))).
    { rewrite somes_map_idx, Kept. reflexivity. }
    assert (Sh: forall j, shift j = if mx <? j then j - k else j) by reflexivity.
    assert (InK: forall j v, In (j, v) (filter (fun q => negb (rng (fst q))) (somes (slots m))) <-> nth_error l j = Some v /\ ~ (lo <= j < h)).
    { intros j v. rewrite filter_In. cbn [fst]. rewrite Hin. split.
      - intros [H1 H2]. split; [exact H1|]. assert (j < length l) by (apply nth_error_Some; congruence). intros C. apply (Rng j H) in C. rewrite C in H2. discriminate.
      - intros [H1 H2]. split; [exact H1|]. assert (j < length l) by (apply nth_error_Some; congruence). destruct (rng j) eqn:E; [apply (Rng j H) in E; contradiction|reflexivity]. }
    assert (Hk: k = h - lo) by exact LenR.
    repeat split; cbn [slots cnt].
    + rewrite map_idx_length. unfold keep_if. rewrite map_length. exact HN.
    + rewrite app_length, firstn_length, skipn_length. fold k. lia.
    + rewrite Snew, map_map. cbn [fst]. rewrite <- (map_map fst shift). apply NoDup_map_inj_in.
      * intros a b Ha Hb. apply in_map_iff in Ha. destruct Ha as [[ja va] [Ea Ha]]. apply in_map_iff in Hb. destruct Hb as [[jb vb] [Eb Hb]].
        cbn in Ea, Eb. subst ja jb. apply InK in Ha. apply InK in Hb. rewrite !Sh.
        destruct (Nat.ltb_spec mx a), (Nat.ltb_spec mx b); lia.
      * clear - Hnd. induction (somes (slots m)) as [|[j v] L IH]; cbn; [constructor|]. inversion Hnd; subst.
        destruct (negb (rng j)); cbn; [constructor; [|apply IH; assumption]|apply IH; assumption].
        intros H. apply H1. apply in_map_iff in H. destruct H as [q [E Hq]]. apply filter_In in Hq. apply in_map_iff. exists q. tauto.
    + rewrite Snew. intros H. apply in_map_iff in H. destruct H as [[j w] [E Hj]]. cbn in E. injection E as <- <-.
      apply InK in Hj. destruct Hj as [Hj Hout]. apply nth_error_outside; [lia|]. rewrite Sh.
      assert (j < length l) by (apply nth_error_Some; congruence).
      destruct (Nat.ltb_spec mx j).
      * right. split; [lia|]. replace (j - k + (h - lo)) with j by lia. exact Hj.
      * left. split; [lia|exact Hj].
    + rewrite Snew. intros H. apply nth_error_outside in H; [|lia]. apply in_map_iff. destruct H as [[H1 H2]|[H1 H2]].
      * exists (i, v). split; [cbn [fst snd]; rewrite Sh; destruct (Nat.ltb_spec mx i); [lia|reflexivity]|]. apply InK. split; [exact H2|lia].
      * exists (i + (h - lo), v). split; [cbn [fst snd]; rewrite Sh; destruct (Nat.ltb_spec mx (i + (h - lo))); [f_equal; lia|lia]|]. apply InK. split; [exact H2|lia].
Qed.
End D.
Print Assumptions drain_refines.
