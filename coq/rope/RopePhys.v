From Coq Require Import List Arith Lia Bool.
Import ListNotations.
Require Import S.Slots.

Section ROPE.
Context {T: Type}.
Variables (MAX BASE UNDER FROM_ITER_CHUNK: nat).   (* MAX_SLOT_SIZE, BASE_SLOT_SIZE, UNDERSIZED_SLOT, the literal 8 of from_iter *)
Definition LOW := BASE - BASE / 2.
Definition HIGH := BASE + BASE / 2.
Notation chunk := (@am T).
Definition rope := list chunk.

Definition rope_new : rope := [am_new MAX].

Fixpoint rope_from_list_aux (fuel: nat) (l: list T) : option rope :=
  match fuel with 0 => Some [] | S f =>
  match l with
  | [] => Some []
  | _ => c <- am_from_list MAX (firstn FROM_ITER_CHUNK l) ;;
         if negb (am_len c =? FROM_ITER_CHUNK) then Some [c]
         else r <- rope_from_list_aux f (skipn FROM_ITER_CHUNK l) ;; Some (c :: r)
  end end.
Definition rope_from_list (l: list T) := rope_from_list_aux (S (length l)) l.

Definition rope_len (r: rope) := fold_left (fun a c => a + am_len c) r 0.

(* returns (key, count before key); key = length r if not found *)
Fixpoint key_with_count_from (r: rope) (idx: nat) (index: nat) (seen: nat) : nat * nat :=
  match r with
  | [] => (idx, seen)
  | c :: r' => let seen' := seen + am_len c in
               if index <? seen' then (idx, seen) else key_with_count_from r' (S idx) index seen'
  end.
Definition key_with_count (r: rope) (index: nat) := key_with_count_from r 0 index 0.
Definition key_with_count_from_prev (r: rope) (index prev seen: nat) : nat * nat :=
  if index <? seen then (prev, seen) else key_with_count_from (skipn prev r) prev index seen.

Definition rope_index (r: rope) (index: nat) : option T :=
  let '(k, c) := key_with_count r index in
  match nth_error r k with Some ch => am_index ch (index - c) | None => None end.
Definition rope_set (r: rope) (index: nat) (v: T) : option rope :=
  let '(k, c) := key_with_count r index in
  match nth_error r k with Some ch => ch' <- am_set ch (index - c) v ;; Some (set_nth k ch' r) | None => None end.

(* pull from later chunks (starting with the placeholder at the current key, which is empty) until hold has BASE *)
Fixpoint pull (hold: chunk) (rest: list chunk) : chunk * list chunk :=
  match rest with
  | [] => (hold, [])
  | c :: rest' =>
     if am_len hold =? BASE then (hold, rest)
     else let k := Nat.min (BASE - am_len hold) (am_len c) in
          let '(c', vals) := am_drain c 0 (Some k) in
          let hold' := am_extend hold vals in
          let '(h, r) := pull hold' rest' in (h, c' :: r)
  end.

(* the main loop: done chunks (reversed), remaining, carry *)
Fixpoint reb_loop (fuel: nat) (done_rev: list chunk) (rest: list chunk) (carry: list T) : list chunk * list T :=
  match fuel with 0 => (rev done_rev ++ rest, carry) | S fuel =>
  match rest with
  | [] => (rev done_rev, carry)
  | entry :: rest' =>
    if am_is_empty entry then reb_loop fuel (entry :: done_rev) rest' carry
    else if (LOW <=? am_len entry) && (am_len entry <=? HIGH) && (match carry with [] => true | _ => false end)
         then (rev done_rev ++ rest, carry)
    else
      let carry_empty := match carry with [] => true | _ => false end in
      let n := am_len entry in
      if n <? BASE then
        let '(hold, carry') :=
          if carry_empty then (entry, carry)
          else let '(e0, vals) := am_drain entry 0 None in
               let c := carry ++ vals in
               (am_extend e0 (firstn BASE c), skipn BASE c) in
        let '(hold', rest'') := pull hold rest' in
        reb_loop fuel (hold' :: done_rev) rest'' carry'
      else if (n =? BASE) && carry_empty then reb_loop fuel (entry :: done_rev) rest' carry
      else if negb carry_empty then
        let '(e0, vals) := am_drain entry 0 None in
        let c := carry ++ vals in
        reb_loop fuel (am_extend e0 (firstn BASE c) :: done_rev) rest' (skipn BASE c)
      else (* Greater, carry empty *)
        let '(e0, vals) := am_drain entry BASE None in
        reb_loop fuel (e0 :: done_rev) rest' (carry ++ vals)
  end end.

Fixpoint chunks_of (fuel: nat) (carry: list T) : option (list chunk) :=
  match fuel with 0 => Some [] | S f =>
    if BASE <? length carry then c <- am_from_list MAX (firstn BASE carry) ;; r <- chunks_of f (skipn BASE carry) ;; Some (c :: r)
    else match carry with [] => Some [] | _ => c <- am_from_list MAX carry ;; Some [c] end
  end.

Definition rebalance_from_key (r: rope) (start: nat) : option rope :=
  let '(chunks, carry) := reb_loop (S (length r)) (rev (firstn start r)) (skipn start r) [] in
  let kept := filter (fun c => negb (am_is_empty c)) chunks in
  match carry with
  | [] => Some kept
  | _ =>
    match rev kept with
    | [] => None (* unreachable in the code: `_ => ()` then pushes; modelled as panic to expose it *)
    | last :: init_rev =>
       let k := Nat.min (BASE - am_len last) (length carry) in
       let last' := am_extend last (firstn k carry) in
       tail <- chunks_of (S (length carry)) (skipn k carry) ;;
       Some (rev init_rev ++ [last'] ++ tail)
    end
  end.

Definition rope_insert (r: rope) (index: nat) (v: T) : option rope :=
  let '(k, c) := key_with_count r index in
  let r1 := if k =? length r then r ++ [am_new MAX] else r in
  match nth_error r1 k with
  | None => None
  | Some ch => ch' <- am_insert MAX ch (index - c) v ;;
               let r2 := set_nth k ch' r1 in
               if am_len ch' =? MAX then rebalance_from_key r2 k else Some r2
  end.

Definition rope_remove (r: rope) (index: nat) : option rope :=
  let '(k, c) := key_with_count r index in
  match nth_error r k with
  | None => None
  | Some ch => p <- am_remove ch (index - c) ;;
               let r2 := set_nth k (fst p) r in
               if am_len (fst p) <=? UNDER then rebalance_from_key r2 (k - 1) else Some r2
  end.

(* inclusive range l..=r *)
Definition rope_drain (r: rope) (l_idx r_idx: nat) : option rope :=
  let '(lk, lc) := key_with_count r l_idx in
  let '(rk, rc) := key_with_count_from_prev r r_idx lk lc in
  if lk =? rk then
    match nth_error r lk with
    | None => None
    | Some ch => let '(ch', _) := am_drain ch (l_idx - lc) (Some (S (r_idx - lc))) in
                 let r2 := set_nth lk ch' r in
                 if am_len ch' <=? UNDER then rebalance_from_key r2 (lk - 1) else Some r2
    end
  else
    match nth_error r lk, nth_error r rk with
    | Some lch, Some rch =>
       let '(lch', _) := am_drain lch (l_idx - lc) None in
       let '(rch', _) := am_drain rch 0 (Some (S (r_idx - rc))) in
       let r2 := firstn lk r ++ [lch'] ++ [rch'] ++ skipn (S rk) r in
       if (am_len lch' <=? UNDER) || (am_len rch' <=? UNDER) then rebalance_from_key r2 lk else Some r2
    | _, _ => None
    end.

Definition rope_swap (r: rope) (a0 b0: nat) : option rope :=
  let a := Nat.min a0 b0 in let b := Nat.max a0 b0 in
  let '(lk, lc) := key_with_count r a in
  let '(rk, rc) := key_with_count_from_prev r b lk lc in
  if lk =? rk then
    match nth_error r lk with Some ch => ch' <- am_swap ch (a - lc) (b - lc) ;; Some (set_nth lk ch' r) | None => None end
  else
    match nth_error r lk, nth_error r rk with
    | Some lch, Some rch =>
       x <- am_index lch (a - lc) ;; y <- am_index rch (b - rc) ;;
       lch' <- am_set lch (a - lc) y ;; rch' <- am_set rch (b - rc) x ;;
       Some (set_nth rk rch' (set_nth lk lch' r))
    | _, _ => None
    end.

Definition rope_to_list (r: rope) : list T := flat_map am_to_list r.

(* borrowed iterator, as coded: exhausted at start iff no chunks or first chunk empty; panics (None) on an empty chunk later *)
Fixpoint iter_from (fuel: nat) (r: rope) (key inkey: nat) : option (list T) :=
  match fuel with 0 => Some [] | S f =>
    match nth_error r key with
    | None => None
    | Some ch => v <- am_index ch inkey ;;
        let inkey' := S inkey in
        let '(key2, inkey2) := if am_len ch <=? inkey' then (S key, 0) else (key, inkey') in
        if length r <=? key2 then Some [v] else rest <- iter_from f r key2 inkey2 ;; Some (v :: rest)
    end
  end.
Definition rope_iter (r: rope) : option (list T) :=
  match r with [] => Some [] | c :: _ => if am_is_empty c then Some [] else iter_from (S (rope_len r)) r 0 0 end.

Inductive rop := OInsert (i: nat) (v: T) | ORemove (i: nat) | ODrain (l r: nat) | OSwap (a b: nat) | OSet (i: nat) (v: T).
Definition rope_step (r: rope) (o: rop) : option rope :=
  match o with
  | OInsert i v => rope_insert r i v | ORemove i => rope_remove r i | ODrain l h => rope_drain r l h
  | OSwap a b => rope_swap r a b | OSet i v => rope_set r i v end.
End ROPE.
