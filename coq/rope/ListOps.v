From Coq Require Import List Arith Lia Bool.
Import ListNotations.

Section L.
Context {T: Type}.
Fixpoint insert_at (n:nat) (x:T) (l:list T) : list T :=
  match n, l with 0, _ => x :: l | S n', [] => [x] | S n', y :: l' => y :: insert_at n' x l' end.
Fixpoint remove_at (n:nat) (l:list T) : list T :=
  match n, l with _, [] => [] | 0, _ :: l' => l' | S n', y :: l' => y :: remove_at n' l' end.
Fixpoint update (n:nat) (x:T) (l:list T) : list T :=
  match n, l with _, [] => [] | 0, _ :: l' => x :: l' | S n', y :: l' => y :: update n' x l' end.
Definition slice (l: list T) (a b: nat) := firstn (b - a) (skipn a l).

Lemma update_app (A B: list T) x v : update (length A) v (A ++ x :: B) = A ++ v :: B.
Proof. induction A; cbn; [reflexivity|]. f_equal. assumption. Qed.
Lemma insert_at_app (A B: list T) v : insert_at (length A) v (A ++ B) = A ++ v :: B.
Proof. induction A; cbn; [destruct B; reflexivity|]. f_equal. assumption. Qed.
Lemma remove_at_app (A B: list T) x : remove_at (length A) (A ++ x :: B) = A ++ B.
Proof. induction A; cbn; [reflexivity|]. f_equal. assumption. Qed.
Lemma firstn_S_snoc (l: list T) (dd: T) n : n < length l -> firstn (S n) l = firstn n l ++ [nth n l dd].
Proof.
  revert n. induction l as [|x l IH]; intros n H; [cbn in H; lia|].
  destruct n; [reflexivity|]. cbn [firstn nth app]. f_equal. apply IH. cbn in H. lia.
Qed.
Lemma skipn_S_cons (l: list T) (dd: T) n : n < length l -> skipn n l = nth n l dd :: skipn (S n) l.
Proof.
  revert n. induction l as [|x l IH]; intros n H; [cbn in H; lia|].
  destruct n; [reflexivity|]. cbn [skipn nth]. apply IH. cbn in H. lia.
Qed.
Lemma nth_firstn (l: list T) n i d : i < n -> nth i (firstn n l) d = nth i l d.
Proof.
  revert n i. induction l as [|x l IH]; intros n i H; [destruct n, i; reflexivity|].
  destruct n; [lia|]. destruct i; [reflexivity|]. cbn. apply IH. lia.
Qed.
Lemma nth_skipn (l: list T) a i d : nth i (skipn a l) d = nth (a + i) l d.
Proof.
  revert a. induction l as [|x l IH]; intros a; [destruct a, i; reflexivity|].
  destruct a; [reflexivity|]. cbn [skipn]. rewrite IH. reflexivity.
Qed.
Lemma slice_length (l: list T) a b : a <= b <= length l -> length (slice l a b) = b - a.
Proof. intros H. unfold slice. rewrite firstn_length, skipn_length. lia. Qed.
Lemma slice_nth (l: list T) a b i d : i < b - a -> nth i (slice l a b) d = nth (a + i) l d.
Proof. intros Hi. unfold slice. rewrite nth_firstn by lia. apply nth_skipn. Qed.
Lemma drain_middle (A F B: list T) : firstn (length A) (A ++ F ++ B) ++ skipn (length A + length F) (A ++ F ++ B) = A ++ B.
Proof.
  rewrite firstn_app, firstn_all, Nat.sub_diag. cbn [firstn]. rewrite app_nil_r. f_equal.
  rewrite skipn_app. rewrite skipn_all2 by lia. cbn [app].
  replace (length A + length F - length A) with (length F) by lia.
  rewrite skipn_app. rewrite skipn_all, Nat.sub_diag. reflexivity.
Qed.

Lemma nth_error_firstn (l: list T) n i : i < n -> nth_error (firstn n l) i = nth_error l i.
Proof.
  revert n i. induction l as [|x l IH]; intros n i H; [destruct n, i; reflexivity|].
  destruct n; [lia|]. destruct i; [reflexivity|]. cbn. apply IH. lia.
Qed.
Lemma nth_error_skipn (l: list T) a i : nth_error (skipn a l) i = nth_error l (a + i).
Proof.
  revert a. induction l as [|x l IH]; intros a; [destruct a, i; reflexivity|].
  destruct a; [reflexivity|]. cbn [skipn]. rewrite IH. reflexivity.
Qed.
End L.
