From Coq Require Import List Arith Lia Bool Permutation.
Import ListNotations.
Require Import S.ListOps S.Slots S.SlotsBasics S.SlotsOps.

Section E.
Context {T: Type}.
Notation slot := (option (nat * T)).
Notation am := (@Slots.am T).

Fixpoint free (sl: list slot) : nat := match sl with [] => 0 | None :: sl' => S (free sl') | Some _ :: sl' => free sl' end.
Lemma free_somes (sl: list slot) : free sl + length (somes sl) = length sl.
Proof. induction sl as [|[p|] sl IH]; [reflexivity| |]; cbn [free]; rewrite somes_cons, app_length; cbn [opt_list length]; lia. Qed.

Lemma extend_aux_spec : forall (sl: list slot) c (vals: list T), length vals <= free sl ->
  let '(r, c') := extend_aux sl c vals in
  c' = c + length vals /\ length r = length sl /\ Permutation (somes r) (somes sl ++ combine (seq c (length vals)) vals).
Proof.
  induction sl as [|[p|] sl IH]; intros c vals Hf; cbn [extend_aux].
  - cbn in Hf. destruct vals; [|cbn in Hf; lia]. cbn. repeat split; [lia|constructor].
  - specialize (IH c vals Hf). destruct (extend_aux sl c vals) as [r c']. destruct IH as (I1 & I2 & I3).
    repeat split; [exact I1|cbn; lia|]. cbn [somes flat_map app]. apply perm_skip. exact I3.
  - destruct vals as [|v vals].
    + cbn. repeat split; [lia|]. rewrite app_nil_r. apply Permutation_refl.
    + cbn in Hf. specialize (IH (S c) vals ltac:(lia)). destruct (extend_aux sl (S c) vals) as [r c']. destruct IH as (I1 & I2 & I3).
      repeat split; [cbn; lia|cbn; lia|]. cbn [somes flat_map app length seq combine].
      change (flat_map (fun s : slot => match s with Some p => [p] | None => [] end) r) with (somes r).
      change (flat_map (fun s : slot => match s with Some p => [p] | None => [] end) sl) with (somes sl).
      eapply perm_trans; [apply perm_skip; exact I3|]. apply Permutation_middle.
Qed.

Lemma in_combine_seq (vals: list T) c i v : In (i, v) (combine (seq c (length vals)) vals) <-> c <= i /\ nth_error vals (i - c) = Some v.
Proof.
  revert c. induction vals as [|x vals IH]; intros c; cbn [length seq combine].
  - split; [intros []|intros [_ H]; destruct (i - c); discriminate].
  - cbn [In]. rewrite IH. split.
    + intros [[= <- <-]|[H1 H2]]; [split; [lia|rewrite Nat.sub_diag; reflexivity]|]. split; [lia|]. replace (i - c) with (S (i - S c)) by lia. exact H2.
    + intros [H1 H2]. destruct (Nat.eq_dec i c) as [->|Hne]; [left; rewrite Nat.sub_diag in H2; cbn in H2; congruence|].
      right. split; [lia|]. replace (i - c) with (S (i - S c)) in H2 by lia. exact H2.
Qed.

Lemma NoDup_app_intro {A} (a b: list A) : NoDup a -> NoDup b -> (forall x, In x a -> In x b -> False) -> NoDup (a ++ b).
Proof.
  induction a as [|x a IH]; intros Na Nb D; cbn; [exact Nb|]. inversion Na; subst. constructor.
  - rewrite in_app_iff. intros [H|H]; [contradiction|]. apply (D x); [left; reflexivity|exact H].
  - apply IH; [assumption|assumption|]. intros y Hy. apply D. right. exact Hy.
Qed.
Lemma combine_fst_seq (vals: list T) c : map fst (combine (seq c (length vals)) vals) = seq c (length vals).
Proof. revert c. induction vals as [|x vals IH]; intros c; cbn; [reflexivity|]. f_equal. apply IH. Qed.

Theorem extend_refines N (m: am) (l: list T) vs : Rep N m l -> length vs <= N - length l ->
  Rep N (am_extend m vs) (l ++ vs).
Proof.
  intros R Hv. pose proof R as (HN & Hc & Hnd & Hin). unfold am_extend.
  pose proof (free_somes (slots m)) as Fs. rewrite (Rep_somes_length N m l R), HN in Fs.
  pose proof (extend_aux_spec (slots m) (cnt m) vs ltac:(lia)) as E.
  destruct (extend_aux (slots m) (cnt m) vs) as [r c']. destruct E as (E1 & E2 & E3).
  assert (InNew: forall i v, In (i, v) (somes r) <-> In (i, v) (somes (slots m)) \/ (length l <= i /\ nth_error vs (i - length l) = Some v)).
  { intros i v. split.
    - intros H. apply (Permutation_in _ E3) in H. apply in_app_iff in H. destruct H as [H|H]; [left; exact H|right]. apply in_combine_seq in H. rewrite Hc in H. exact H.
    - intros H. apply (Permutation_in _ (Permutation_sym E3)). apply in_app_iff. destruct H as [H|H]; [left; exact H|right]. apply in_combine_seq. rewrite Hc. exact H. }
  repeat split; cbn [slots cnt].
  - lia.
  - rewrite app_length. lia.
  - eapply Permutation_NoDup; [apply Permutation_sym, Permutation_map, E3|]. rewrite map_app.
    apply NoDup_app_intro.
    + exact Hnd.
    + rewrite combine_fst_seq. apply seq_NoDup.
    + intros i H1 H2. apply in_map_iff in H1. destruct H1 as [[j v] [<- Hj]]. apply Hin in Hj. assert (j < length l) by (apply nth_error_Some; congruence).
      rewrite combine_fst_seq in H2. apply in_seq in H2. cbn in H2. lia.
  - intros H. apply InNew in H. destruct H as [H|[H1 H2]].
    + apply Hin in H. rewrite nth_error_app1; [exact H|]. apply nth_error_Some. congruence.
    + rewrite nth_error_app2 by lia. exact H2.
  - intros H. apply InNew. destruct (Nat.lt_ge_cases i (length l)) as [Hi|Hi].
    + rewrite nth_error_app1 in H by lia. left. apply Hin. exact H.
    + rewrite nth_error_app2 in H by lia. right. split; [lia|exact H].
Qed.
End E.
