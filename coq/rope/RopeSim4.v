From Coq Require Import List Arith Lia Bool Permutation.
Import ListNotations.
Require Import S.ListOps S.Slots S.SlotsBasics S.SlotsOps S.SlotsInsert S.SlotsSort S.SlotsDrain S.SlotsExtend S.SlotsSwap.
Require Import S.RopeAbs S.RopeAbsProofs S.RopeAbsInv S.RopeAbsOps S.RopeAbsDrain S.RopePhys S.RopeSim1 S.RopeSim2 S.RopeSim3 S.RopeSwap.

Section SIM4.
Context {T: Type}.
Variables (MAX BASE UNDER FIC: nat).
Hypothesis HB1 : 1 <= BASE.
Hypothesis HBM1 : BASE <= MAX - 1.
Hypothesis HHIGH : RopeAbs.HIGH BASE <= MAX - 1.
Notation chunk := (@am T).
Notation rope := (list (@am T)).
Notation arope := (list (list T)).
Notation RopeRep := (@RopeSim1.RopeRep T MAX).
Notation Inv := (@RopeAbsInv.Inv T MAX).

Lemma HBM : BASE <= MAX. Proof. lia. Qed.

Theorem drain_sim (r: rope) (ls: arope) lo hi ls' : RopeRep r ls ->
  a_drain BASE UNDER ls lo hi = Some ls' ->
  exists r', rope_drain MAX BASE UNDER r lo hi = Some r' /\ RopeRep r' ls'.
Proof.
  intros R. unfold rope_drain, RopeAbs.a_drain, key_with_count, RopeAbs.a_kwc.
  rewrite (kwc_sim MAX r ls 0 lo 0 R). destruct (a_kwc_from ls 0 lo 0) as [lk lc].
  unfold key_with_count_from_prev, RopeAbs.a_kwc_from_prev.
  rewrite (kwc_sim MAX (skipn lk r) (skipn lk ls) lk hi lc (RopeRep_skipn MAX lk r ls R)).
  destruct (if hi <? lc then (lk, lc) else a_kwc_from (skipn lk ls) lk hi lc) as [rk rc].
  destruct (lk =? rk) eqn:Ek.
  - destruct (nth_error r lk) as [ch|] eqn:Nk.
    + destruct (RopeRep_nth MAX r ls lk ch R Nk) as (lch & Nl & Rc). rewrite Nl.
      destruct ((lo - lc <=? S (hi - lc)) && (S (hi - lc) <=? length lch)) eqn:G; [|discriminate].
      apply andb_true_iff in G. destruct G as [G1 G2]. apply Nat.leb_le in G1. apply Nat.leb_le in G2.
      pose proof (drain_refines MAX ch lch (lo - lc) (Some (S (hi - lc))) Rc) as D. cbn [hi_of] in D. specialize (D ltac:(lia)).
      destruct (am_drain ch (lo - lc) (Some (S (hi - lc)))) as [ch' vals]. cbn [fst snd] in D. destruct D as [D1 _].
      rewrite (Rep_len ch' _ MAX D1).
      pose proof (RopeRep_set MAX r ls lk ch' _ R D1) as R2.
      destruct (length (firstn (lo - lc) lch ++ skipn (S (hi - lc)) lch) <=? UNDER).
      * intros H. apply (rebalance_sim MAX BASE HBM _ _ _ _ HB1 R2 H).
      * intros [= <-]. eexists. split; [reflexivity|exact R2].
    + rewrite (RopeRep_nth_none MAX r ls lk R Nk). discriminate.
  - destruct (nth_error r lk) as [lch|] eqn:Nl; [|rewrite (RopeRep_nth_none MAX r ls lk R Nl); discriminate].
    destruct (RopeRep_nth MAX r ls lk lch R Nl) as (llch & Nll & Rl). rewrite Nll.
    destruct (nth_error r rk) as [rch|] eqn:Nr; [|rewrite (RopeRep_nth_none MAX r ls rk R Nr); discriminate].
    destruct (RopeRep_nth MAX r ls rk rch R Nr) as (lrch & Nlr & Rr). rewrite Nlr.
    destruct ((lo - lc <=? length llch) && (S (hi - rc) <=? length lrch)) eqn:G; [|discriminate].
    apply andb_true_iff in G. destruct G as [G1 G2]. apply Nat.leb_le in G1. apply Nat.leb_le in G2.
    pose proof (drain_refines MAX lch llch (lo - lc) None Rl) as D1. cbn [hi_of] in D1. specialize (D1 ltac:(lia)).
    destruct (am_drain lch (lo - lc) None) as [lch' v1]. cbn [fst snd] in D1. destruct D1 as [D1 _]. rewrite skipn_all, app_nil_r in D1.
    pose proof (drain_refines MAX rch lrch 0 (Some (S (hi - rc))) Rr) as D2. cbn [hi_of] in D2. specialize (D2 ltac:(lia)).
    destruct (am_drain rch 0 (Some (S (hi - rc)))) as [rch' v2]. cbn [fst snd] in D2. destruct D2 as [D2 _]. cbn [firstn app] in D2.
    rewrite (Rep_len lch' _ MAX D1), (Rep_len rch' _ MAX D2).
    assert (R2: RopeRep (firstn lk r ++ [lch'] ++ [rch'] ++ skipn (S rk) r) (firstn lk ls ++ [firstn (lo - lc) llch] ++ [skipn (S (hi - rc)) lrch] ++ skipn (S rk) ls)).
    { apply RopeRep_app; [apply RopeRep_firstn; exact R|]. cbn [app]. constructor; [exact D1|]. constructor; [exact D2|]. apply RopeRep_skipn. exact R. }
    destruct ((length (firstn (lo - lc) llch) <=? UNDER) || (length (skipn (S (hi - rc)) lrch) <=? UNDER)).
    + intros H. apply (rebalance_sim MAX BASE HBM _ _ _ _ HB1 R2 H).
    + intros [= <-]. eexists. split; [reflexivity|exact R2].
Qed.

(* ---- the rope as a growable array: one step, then any history ---- *)
Inductive lop := LInsert (i: nat) (v: T) | LRemove (i: nat) | LDrain (lo hi: nat) | LSet (i: nat) (v: T) | LSwap (a b: nat).
Definition in_range (l: list T) (o: lop) : Prop :=
  match o with
  | LInsert i _ => i <= length l | LRemove i => i < length l
  | LDrain lo hi => lo <= hi < length l | LSet i _ => i < length l
  | LSwap a b => a < length l /\ b < length l
  end.
Definition list_step (l: list T) (o: lop) : list T :=
  match o with
  | LInsert i v => insert_at i v l | LRemove i => remove_at i l
  | LDrain lo hi => firstn lo l ++ skipn (S hi) l | LSet i v => update i v l
  | LSwap a b => swap_list (Nat.min a b) (Nat.max a b) l
  end.
Definition phys_step (r: rope) (o: lop) : option rope :=
  match o with
  | LInsert i v => rope_insert MAX BASE r i v | LRemove i => rope_remove MAX BASE UNDER r i
  | LDrain lo hi => rope_drain MAX BASE UNDER r lo hi | LSet i v => rope_set r i v
  | LSwap a b => rope_swap r a b
  end.
Fixpoint in_range_history (l: list T) (ops: list lop) : Prop :=
  match ops with [] => True | o :: ops' => in_range l o /\ in_range_history (list_step l o) ops' end.
Fixpoint phys_run (r: rope) (ops: list lop) : option rope :=
  match ops with [] => Some r | o :: ops' => match phys_step r o with Some r' => phys_run r' ops' | None => None end end.

Theorem rope_step_ok (r: rope) (ls: arope) o : RopeRep r ls -> Inv ls -> in_range (concat ls) o ->
  exists r' ls', phys_step r o = Some r' /\ RopeRep r' ls' /\ Inv ls' /\ concat ls' = list_step (concat ls) o.
Proof.
  intros R I Hr. destruct o as [i v|i|lo hi|i v|a b]; cbn [in_range list_step phys_step] in *.
  - destruct (a_insert_ok MAX BASE HB1 HBM1 HHIGH ls i v I Hr) as (ls' & A1 & A2 & A3).
    destruct (insert_sim MAX BASE HBM HB1 r ls i v ls' R A1) as (r' & S1 & S2). exists r', ls'. auto.
  - destruct (a_remove_ok MAX BASE UNDER HB1 HBM1 HHIGH ls i I Hr) as (ls' & A1 & A2 & A3).
    destruct (remove_sim MAX BASE UNDER HBM HB1 r ls i ls' R A1) as (r' & S1 & S2). exists r', ls'. auto.
  - destruct (a_drain_ok MAX BASE UNDER HB1 HBM1 HHIGH ls lo hi I Hr) as (ls' & A1 & A2 & A3).
    destruct (drain_sim r ls lo hi ls' R A1) as (r' & S1 & S2). exists r', ls'. auto.
  - destruct (a_set_ok MAX BASE HB1 HBM1 HHIGH ls i v I Hr) as (ls' & A1 & A2 & A3).
    destruct (set_sim MAX BASE HBM HB1 r ls i v ls' R A1) as (r' & S1 & S2). exists r', ls'. auto.
  - destruct Hr as [Ha Hb]. destruct (a_swap_ok MAX BASE HB1 HBM1 HHIGH ls a b I Ha Hb) as (ls' & A1 & A2 & A3).
    destruct (swap_sim MAX r ls a b ls' R A1) as (r' & S1 & S2). exists r', ls'. auto.
Qed.

Lemma a_index_flat (ls: arope) i :
  (let '(k, c) := a_kwc ls i in match nth_error ls k with Some lch => nth_error lch (i - c) | None => None end) = nth_error (concat ls) i.
Proof.
  destruct (Nat.lt_ge_cases i (length (concat ls))) as [Hlt|Hge].
  - destruct (a_kwc_in ls i Hlt) as (pre & ch & post & -> & K & Hr). rewrite K. rewrite nth_error_mid.
    rewrite concat_app. cbn [concat]. rewrite nth_error_app2 by lia. rewrite nth_error_app1 by lia. reflexivity.
  - rewrite (a_kwc_out ls i Hge). assert (E: nth_error ls (length ls) = None) by (apply nth_error_None; lia). rewrite E.
    symmetry. apply nth_error_None. exact Hge.
Qed.

Theorem rope_refines_list : forall ops (r: rope) (ls: arope), RopeRep r ls -> Inv ls -> in_range_history (concat ls) ops ->
  exists r' ls', phys_run r ops = Some r' /\ RopeRep r' ls' /\ Inv ls'
     /\ concat ls' = fold_left list_step ops (concat ls)
     /\ rope_to_list r' = fold_left list_step ops (concat ls)
     /\ (forall i, rope_index r' i = nth_error (fold_left list_step ops (concat ls)) i).
Proof.
  induction ops as [|o ops IH]; intros r ls R I H.
  - exists r, ls. cbn [phys_run fold_left]. split; [reflexivity|]. split; [exact R|]. split; [exact I|]. split; [reflexivity|].
    split; [apply (to_list_sim MAX r ls R)|]. intros i. rewrite (index_sim MAX r ls i R). apply a_index_flat.
  - cbn in H. destruct H as [H1 H2]. destruct (rope_step_ok r ls o R I H1) as (r1 & ls1 & S1 & S2 & S3 & S4).
    rewrite <- S4 in H2. destruct (IH r1 ls1 S2 S3 H2) as (r' & ls' & A1 & A2 & A3 & A4 & A5 & A6).
    exists r', ls'. cbn [phys_run fold_left]. rewrite S1, <- S4. auto 10.
Qed.
End SIM4.
Print Assumptions rope_refines_list.
