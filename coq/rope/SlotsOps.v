From Coq Require Import List Arith Lia Bool Permutation.
Import ListNotations.
Require Import S.ListOps S.Slots S.SlotsBasics.

Section O.
Context {T: Type}.
Notation slot := (option (nat * T)).
Notation am := (@Slots.am T).

Lemma NoDup_map_inj_in {A B} (f: A -> B) (l: list A) :
  (forall x y, In x l -> In y l -> f x = f y -> x = y) -> NoDup l -> NoDup (map f l).
Proof.
  induction l as [|a l IH]; intros Inj N; cbn; [constructor|]. inversion N; subst. constructor.
  - intros H. apply in_map_iff in H. destruct H as [y [E Hy]]. assert (y = a) by (apply Inj; [right; exact Hy|left; reflexivity|exact E]). subst. contradiction.
  - apply IH; [|assumption]. intros x y Hx Hy. apply Inj; right; assumption.
Qed.

Lemma nth_error_remove_at (l: list T) pos : forall i v,
  nth_error (remove_at pos l) i = Some v <->
  (i < pos /\ nth_error l i = Some v) \/ (pos <= i /\ nth_error l (S i) = Some v).
Proof.
  revert pos. induction l as [|x l IH]; intros pos i v.
  - destruct pos; cbn; destruct i; cbn; split; try discriminate; intros [[_ H]|[_ H]]; discriminate.
  - destruct pos as [|pos]; cbn [remove_at].
    + split; [intros H; right; split; [lia|exact H]|intros [[H _]|[_ H]]; [lia|exact H]].
    + destruct i as [|i]; cbn [nth_error].
      * split; [intros H; left; split; [lia|exact H]|intros [[_ H]|[H _]]; [exact H|lia]].
      * rewrite IH. split; intros [[H1 H2]|[H1 H2]]; [left|right|left|right]; (split; [lia|exact H2]).
Qed.
Lemma nth_error_update (l: list T) pos v0 : pos < length l -> forall i v,
  nth_error (update pos v0 l) i = Some v <-> (i = pos /\ v = v0) \/ (i <> pos /\ nth_error l i = Some v).
Proof.
  revert pos. induction l as [|x l IH]; intros pos Hp i v; [cbn in Hp; lia|].
  destruct pos as [|pos]; cbn [update].
  - destruct i as [|i]; cbn [nth_error]; split.
    + intros [= ->]. left; auto.
    + intros [[_ ->]|[H _]]; [reflexivity|lia].
    + intros H. right. split; [lia|exact H].
    + intros [[H _]|[_ H]]; [lia|exact H].
  - destruct i as [|i]; cbn [nth_error].
    + split; [intros H; right; split; [lia|exact H]|intros [[H _]|[_ H]]; [lia|exact H]].
    + rewrite (IH pos ltac:(cbn in Hp; lia) i v). split; intros [[H1 H2]|[H1 H2]]; [left|right|left|right]; (split; [lia|exact H2]).
Qed.
Lemma length_remove_at (l: list T) pos : pos < length l -> length (remove_at pos l) = length l - 1.
Proof. revert pos. induction l as [|x l IH]; intros [|pos] H; cbn in *; try lia. rewrite IH by lia. lia. Qed.
Lemma length_update (l: list T) pos v : length (update pos v l) = length l.
Proof. revert pos. induction l as [|x l IH]; intros [|pos]; cbn; auto. Qed.

(* locating the slot that holds logical index pos *)
Lemma locate N (m: am) l pos x : Rep N m l -> nth_error l pos = Some x ->
  exists k, find_idx (has_idx pos) (slots m) = Some k /\ k < length (slots m) /\ nth k (slots m) None = Some (pos, x) /\
    exists A B, somes (slots m) = A ++ (pos, x) :: B /\ somes (firstn k (slots m)) = A /\ somes (skipn (S k) (slots m)) = B /\
      ~ In pos (map fst (A ++ B)) /\ NoDup (map fst (A ++ B)).
Proof.
  intros R Hx. pose proof R as (HN & Hc & Hnd & Hin).
  destruct (find_idx (has_idx pos) (slots m)) as [k|] eqn:F.
  - destruct (find_idx_some _ _ _ None F) as (K1 & K2 & _). apply has_idx_true in K2. destruct K2 as [v Hv].
    assert (v = x). { eapply (Rep_unique N m l pos v x R); [|apply Hin; exact Hx]. apply in_somes. rewrite <- Hv. apply nth_In. exact K1. }
    subst v. exists k. repeat split; auto. exists (somes (firstn k (slots m))), (somes (skipn (S k) (slots m))).
    assert (Sm: somes (slots m) = somes (firstn k (slots m)) ++ (pos, x) :: somes (skipn (S k) (slots m))).
    { etransitivity; [apply (somes_split k _ K1)|]. f_equal. change ((pos, x) :: somes (skipn (S k) (slots m))) with (opt_list (Some (pos, x)) ++ somes (skipn (S k) (slots m))).
      f_equal. exact (f_equal opt_list Hv). }
    split; [exact Sm|]. split; [reflexivity|]. split; [reflexivity|].
    rewrite Sm in Hnd. rewrite map_app in Hnd. cbn [map fst] in Hnd. apply NoDup_remove in Hnd. rewrite <- map_app in Hnd. destruct Hnd. split; assumption.
  - exfalso. rewrite find_idx_none in F. apply Hin in Hx. apply in_somes in Hx. specialize (F _ Hx). cbn in F. rewrite Nat.eqb_refl in F. discriminate.
Qed.

Lemma in_AB (A B: list (nat * T)) pos x (p: nat * T) : ~ In pos (map fst (A ++ B)) ->
  (In p (A ++ B) <-> In p (A ++ (pos, x) :: B) /\ fst p <> pos).
Proof.
  intros Hn. rewrite !in_app_iff. cbn [In]. split.
  - intros H. split; [tauto|]. intros E. apply Hn. apply in_map_iff. exists p. split; [exact E|apply in_app_iff; exact H].
  - intros [[H|[H|H]] Hne]; [tauto| |tauto]. subst p. cbn in Hne. congruence.
Qed.

Theorem remove_refines N (m: am) (l: list T) pos x : Rep N m l -> nth_error l pos = Some x ->
  exists m' : am, am_remove m pos = Some (m', x) /\ Rep N m' (remove_at pos l).
Proof.
  intros R Hx. pose proof R as (HN & Hc & Hnd & Hin).
  destruct (locate N m l pos x R Hx) as (k & F & K1 & Hv & A & B & Sm & SA & SB & Hnp & HndAB).
  unfold am_remove. rewrite F, Hv. eexists. split; [reflexivity|].
  set (dec := fun j => if pos <? j then j - 1 else j).
  assert (Hpl: pos < length l) by (apply nth_error_Some; congruence).
  assert (Snew: somes (map_idx dec (set_nth k None (slots m))) = map (fun p => (dec (fst p), snd p)) (A ++ B)).
  { rewrite somes_map_idx, (somes_set_nth k None (slots m) K1), SA, SB. reflexivity. }
  repeat split; cbn [slots cnt].
  - rewrite map_idx_length, set_nth_length. exact HN.
  - rewrite length_remove_at by exact Hpl. lia.
  - rewrite Snew, map_map. cbn [fst]. rewrite <- (map_map fst dec). apply NoDup_map_inj_in; [|exact HndAB].
    intros a b Ha Hb E. subst dec. cbv beta in E.
    assert (a <> pos) by (intros ->; contradiction). assert (b <> pos) by (intros ->; contradiction).
    destruct (Nat.ltb_spec pos a), (Nat.ltb_spec pos b); lia.
  - rewrite Snew. intros H. apply in_map_iff in H. destruct H as [[j w] [E Hj]]. cbn in E. injection E as <- <-.
    apply (in_AB A B pos x) in Hj; [|exact Hnp]. destruct Hj as [Hj Hne]. cbn in Hne. rewrite <- Sm in Hj. apply Hin in Hj.
    apply nth_error_remove_at. subst dec. cbv beta. destruct (pos <? j) eqn:C; [apply Nat.ltb_lt in C|apply Nat.ltb_ge in C].
    + right. split; [lia|]. replace (S (j - 1)) with j by lia. exact Hj.
    + left. split; [lia|exact Hj].
  - rewrite Snew. intros H. apply nth_error_remove_at in H. apply in_map_iff. destruct H as [[H1 H2]|[H1 H2]].
    + exists (i, v). split; [cbn [fst snd]; subst dec; cbv beta; destruct (pos <? i) eqn:C; [apply Nat.ltb_lt in C; lia|reflexivity]|].
      apply (in_AB A B pos x); [exact Hnp|]. split; [rewrite <- Sm; apply Hin; exact H2|cbn; lia].
    + exists (S i, v). split; [cbn [fst snd]; subst dec; cbv beta; destruct (pos <? S i) eqn:C; [f_equal; lia|apply Nat.ltb_ge in C; lia]|].
      apply (in_AB A B pos x); [exact Hnp|]. split; [rewrite <- Sm; apply Hin; exact H2|cbn; lia].
Qed.

Theorem set_refines N (m: am) (l: list T) pos x v0 : Rep N m l -> nth_error l pos = Some x ->
  exists m' : am, am_set m pos v0 = Some m' /\ Rep N m' (update pos v0 l).
Proof.
  intros R Hx. pose proof R as (HN & Hc & Hnd & Hin).
  destruct (locate N m l pos x R Hx) as (k & F & K1 & Hv & A & B & Sm & SA & SB & Hnp & HndAB).
  unfold am_set. rewrite F. eexists. split; [reflexivity|].
  assert (Hpl: pos < length l) by (apply nth_error_Some; congruence).
  assert (Snew: somes (set_nth k (Some (pos, v0)) (slots m)) = A ++ (pos, v0) :: B).
  { rewrite (somes_set_nth k (Some (pos, v0)) (slots m) K1), SA, SB. reflexivity. }
  repeat split; cbn [slots cnt].
  - rewrite set_nth_length. exact HN.
  - rewrite length_update. exact Hc.
  - rewrite Snew. rewrite Sm in Hnd. rewrite map_app in *. cbn [map fst] in *. exact Hnd.
  - rewrite Snew. intros H. apply nth_error_update; [exact Hpl|]. apply in_app_iff in H. cbn [In] in H.
    destruct (Nat.eq_dec i pos) as [->|Hne].
    + left. split; [reflexivity|]. destruct H as [H|[H|H]]; [|congruence|];
      exfalso; apply Hnp; apply in_map_iff; exists (pos, v); (split; [reflexivity|apply in_app_iff; tauto]).
    + right. split; [exact Hne|]. apply Hin. rewrite Sm. apply in_app_iff. cbn [In]. destruct H as [H|[H|H]]; [tauto|congruence|tauto].
  - rewrite Snew. intros H. apply nth_error_update in H; [|exact Hpl]. apply in_app_iff. cbn [In].
    destruct H as [[-> ->]|[Hne H]]; [tauto|]. apply Hin in H. rewrite Sm in H. apply in_app_iff in H. cbn [In] in H.
    destruct H as [H|[H|H]]; [tauto|congruence|tauto].
Qed.
End O.
Print Assumptions remove_refines.
