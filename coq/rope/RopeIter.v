From Coq Require Import List Arith Lia Bool Permutation.
Import ListNotations.
Require Import S.ListOps S.Slots S.SlotsBasics S.SlotsOps S.SlotsSwap S.SlotsDrain.
Require Import S.RopeAbs S.RopeAbsInv S.RopePhys S.RopeSim1.

Section IT.
Context {T: Type}.
Variables (MAX FIC: nat).
Notation chunk := (@am T).
Notation rope := (list (@am T)).
Notation arope := (list (list T)).
Notation RopeRep := (@RopeSim1.RopeRep T MAX).
Notation NonEmpty := (@RopeAbsInv.NonEmpty T).

Lemma rope_len_sim (r: rope) (ls: arope) : RopeRep r ls -> rope_len r = length (concat ls).
Proof.
  intros R. unfold rope_len. assert (G: forall a, fold_left (fun a c => a + am_len c) r a = a + length (concat ls)).
  { induction R as [|c l r ls Rc R IH]; intros a; cbn [fold_left concat]; [cbn; lia|]. rewrite IH, (Rep_len c l MAX Rc), app_length. lia. }
  apply G.
Qed.

(* the borrowed iterator from position (key, inkey) yields the rest of that chunk and all later chunks *)
Lemma iter_from_spec (r: rope) (ls: arope) : RopeRep r ls -> NonEmpty ls ->
  forall fuel key inkey lch, nth_error ls key = Some lch -> inkey < length lch ->
  length (skipn inkey lch) + length (concat (skipn (S key) ls)) <= fuel ->
  iter_from fuel r key inkey = Some (skipn inkey lch ++ concat (skipn (S key) ls)).
Proof.
  intros R NE. induction fuel as [|fuel IH]; intros key inkey lch Nl Hi Hf.
  - rewrite skipn_length in Hf. lia.
  - cbn [iter_from].
    assert (Hk: key < length ls) by (apply nth_error_Some; congruence).
    destruct (nth_error r key) as [ch|] eqn:Nk; [|apply nth_error_None in Nk; rewrite (RopeRep_length MAX r ls R) in Nk; lia].
    destruct (RopeRep_nth MAX r ls key ch R Nk) as (lch' & Nl' & Rc). rewrite Nl in Nl'. injection Nl' as <-.
    rewrite (index_refines MAX ch lch inkey Rc). destruct (nth_error lch inkey) as [v|] eqn:Nv; [|apply nth_error_None in Nv; lia].
    cbn [Slots.bind]. rewrite (Rep_len ch lch MAX Rc). rewrite (RopeRep_length MAX r ls R).
    assert (Sk: skipn inkey lch = v :: skipn (S inkey) lch).
    { clear - Nv. revert inkey Nv. induction lch as [|x l IHl]; intros [|i] Nv; cbn in *; try discriminate; [injection Nv as ->; reflexivity|apply IHl; exact Nv]. }
    destruct (Nat.leb_spec (length lch) (S inkey)) as [Hend|Hmore].
    + (* move to the next chunk *)
      assert (E: skipn (S inkey) lch = []) by (apply skipn_all2; lia).
      destruct (Nat.leb_spec (length ls) (S key)) as [Hlast|Hnext].
      * replace (skipn (S key) ls) with (@nil (list T)) by (symmetry; apply skipn_all2; lia). rewrite Sk, E. reflexivity.
      * destruct (nth_error ls (S key)) as [nxt|] eqn:Nn; [|apply nth_error_None in Nn; lia].
        assert (Hne: 1 <= length nxt).
        { unfold RopeAbsInv.NonEmpty in NE. rewrite Forall_forall in NE. apply NE. eapply nth_error_In; exact Nn. }
        assert (Sk2: skipn (S key) ls = nxt :: skipn (S (S key)) ls).
        { clear - Nn. revert key Nn. induction ls as [|x l IHl]; intros k Nn; [destruct k; discriminate|]. destruct k; cbn in *; [destruct l; [discriminate|injection Nn as ->; reflexivity]|apply IHl; exact Nn]. }
        rewrite (IH (S key) 0 nxt Nn ltac:(lia)).
        -- cbn [Slots.bind]. change (skipn 0 nxt) with nxt. rewrite Sk, E, Sk2. cbn [concat app]. reflexivity.
        -- change (skipn 0 nxt) with nxt. rewrite Sk, E, Sk2 in Hf. cbn [concat length app] in Hf. rewrite app_length in Hf. cbn [length] in Hf. lia.
    + destruct (Nat.leb_spec (length ls) key) as [Hbad|_]; [lia|].
      rewrite (IH key (S inkey) lch Nl ltac:(lia)).
      * cbn [Slots.bind]. rewrite Sk. reflexivity.
      * rewrite Sk in Hf. cbn [length] in Hf. lia.
Qed.

Theorem iter_sim (r: rope) (ls: arope) : RopeRep r ls -> NonEmpty ls -> rope_iter r = Some (concat ls).
Proof.
  intros R NE. unfold rope_iter. destruct R as [|c l r ls Rc R]; [reflexivity|].
  rewrite (Rep_empty c l MAX Rc). inversion NE; subst. destruct l as [|x l]; [cbn in *; lia|]. cbn [RopeAbs.is_nil].
  assert (RR: RopeRep (c :: r) ((x :: l) :: ls)) by (constructor; assumption).
  rewrite (iter_from_spec (c :: r) ((x :: l) :: ls) RR NE (S (rope_len (c :: r))) 0 0 (x :: l) eq_refl ltac:(cbn; lia)).
  - reflexivity.
  - rewrite (rope_len_sim (c :: r) _ RR). cbn [skipn concat]. rewrite app_length. lia.
Qed.

(* ---- construction ---- *)
Hypothesis HFIC1 : 1 <= FIC.
Hypothesis HFICM : FIC <= MAX - 1.
Notation Inv := (@RopeAbsInv.Inv T MAX).

Fixpoint chunk_lists (fuel: nat) (l: list T) : arope :=
  match fuel with 0 => [] | S f =>
    match l with [] => [] | _ => if length (firstn FIC l) =? FIC then firstn FIC l :: chunk_lists f (skipn FIC l) else [firstn FIC l] end
  end.

Lemma from_list_sim : forall fuel (l: list T), length l < fuel ->
  exists r, rope_from_list_aux MAX FIC fuel l = Some r /\ RopeRep r (chunk_lists fuel l) /\ Inv (chunk_lists fuel l) /\ concat (chunk_lists fuel l) = l.
Proof.
  induction fuel as [|fuel IH]; intros l H; [lia|]. cbn [rope_from_list_aux chunk_lists].
  destruct l as [|x l]; [exists []; repeat split; constructor|].
  set (l0 := x :: l) in *.
  destruct (from_list_rep MAX (firstn FIC l0)) as (c & F & Rc); [rewrite firstn_length; lia|].
  rewrite F. cbn [Slots.bind]. rewrite (Rep_len c _ MAX Rc).
  assert (Hne: 1 <= length (firstn FIC l0)) by (rewrite firstn_length; subst l0; cbn [length]; lia).
  assert (Hle: length (firstn FIC l0) <= MAX - 1) by (rewrite firstn_length; lia).
  destruct (Nat.eqb_spec (length (firstn FIC l0)) FIC) as [E|E]; cbn [negb].
  - destruct (IH (skipn FIC l0)) as (r & Fr & Rr & Ir & Cr); [rewrite skipn_length; subst l0; cbn [length] in *; lia|].
    rewrite Fr. cbn [Slots.bind]. eexists. split; [reflexivity|]. split; [constructor; assumption|]. split.
    + destruct Ir as [B N]. split; constructor; assumption.
    + cbn [concat]. rewrite Cr. apply firstn_skipn.
  - eexists. split; [reflexivity|]. split; [constructor; [assumption|constructor]|]. split.
    + split; constructor; try assumption; constructor.
    + cbn [concat]. rewrite app_nil_r. apply firstn_all2. rewrite firstn_length in E. lia.
Qed.

Theorem build_from_list (l: list T) : exists r ls, rope_from_list MAX FIC l = Some r /\ RopeRep r ls /\ Inv ls /\ concat ls = l.
Proof. unfold rope_from_list. destruct (from_list_sim (S (length l)) l ltac:(lia)) as (r & A & B & C & D). eauto 6. Qed.

(* Rope::new() as coded today: one empty chunk, which is outside the invariant (defect D1) *)
Lemma new_not_nonempty : RopeRep (rope_new MAX) [[]] /\ ~ NonEmpty [[]: list T].
Proof. split; [constructor; [apply new_rep|constructor]|]. intros H. inversion H; subst. cbn in *. lia. Qed.
End IT.
Print Assumptions iter_sim.
Print Assumptions build_from_list.
