From Coq Require Import List Arith Lia Bool.
Import ListNotations.

(* option monad for panics *)
Definition bind {A B} (o: option A) (f: A -> option B) : option B := match o with Some x => f x | None => None end.
Notation "x <- e ;; k" := (bind e (fun x => k)) (at level 60, e at next level, right associativity).

Section AM.
Context {T: Type}.
Notation slot := (option (nat * T)).
Record am := mk_am { slots : list slot; cnt : nat }.

Definition am_new (N: nat) : am := mk_am (repeat None N) 0.
Definition am_len (m: am) := cnt m.
Definition am_is_empty (m: am) := cnt m =? 0.

Fixpoint find_idx {A} (p: A -> bool) (l: list A) : option nat :=
  match l with [] => None | x :: l' => if p x then Some 0 else option_map S (find_idx p l') end.
Definition is_none (s: slot) := match s with None => true | _ => false end.
Definition has_idx (i: nat) (s: slot) := match s with Some (j, _) => j =? i | None => false end.
Fixpoint set_nth {A} (n: nat) (x: A) (l: list A) : list A :=
  match n, l with _, [] => [] | 0, _ :: l' => x :: l' | S n', y :: l' => y :: set_nth n' x l' end.
Definition map_idx (f: nat -> nat) (l: list slot) : list slot :=
  map (fun s => match s with Some (j, v) => Some (f j, v) | None => None end) l.

Definition am_insert (N: nat) (m: am) (pos: nat) (v: T) : option am :=
  if negb (pos <? N) then None else
  match find_idx is_none (slots m) with
  | None => None
  | Some _ =>
    let bumped := map_idx (fun j => if pos <=? j then S j else j) (slots m) in
    match find_idx is_none bumped with
    | None => None
    | Some k => Some (mk_am (set_nth k (Some (pos, v)) bumped) (S (cnt m)))
    end
  end.

Definition am_remove (m: am) (pos: nat) : option (am * T) :=
  match find_idx (has_idx pos) (slots m) with
  | None => None
  | Some k =>
    match nth k (slots m) None with
    | Some (_, v) =>
       let taken := set_nth k None (slots m) in
       Some (mk_am (map_idx (fun j => if pos <? j then j - 1 else j) taken) (cnt m - 1), v)
    | None => None
    end
  end.

Definition am_swap (m: am) (a b: nat) : option am :=
  if a =? b then Some m else
  match find_idx (has_idx a) (slots m), find_idx (has_idx b) (slots m) with
  | Some ka, Some kb =>
     match nth ka (slots m) None, nth kb (slots m) None with
     | Some (ia, va), Some (ib, vb) => Some (mk_am (set_nth ka (Some (ib, va)) (set_nth kb (Some (ia, vb)) (slots m))) (cnt m))
     | _, _ => None
     end
  | _, _ => None
  end.

(* half-open range [lo, hi) with optional hi *)
Definition in_range (lo: nat) (hi: option nat) (i: nat) : bool :=
  (lo <=? i) && match hi with Some h => i <? h | None => true end.

(* insertion sort by logical index, stable *)
Fixpoint ins_sorted (x: nat * T) (l: list (nat * T)) : list (nat * T) :=
  match l with [] => [x] | y :: l' => if fst y <=? fst x then y :: ins_sorted x l' else x :: l end.
Definition sort_by_idx (l: list (nat * T)) : list (nat * T) := fold_left (fun acc x => ins_sorted x acc) l [].

Definition somes (l: list slot) : list (nat * T) := flat_map (fun s => match s with Some p => [p] | None => [] end) l.

Definition am_drain (m: am) (lo: nat) (hi: option nat) : am * list T :=
  let removed := filter (fun p => in_range lo hi (fst p)) (somes (slots m)) in
  let k := length removed in
  let kept := map (fun s => match s with Some (j, v) => if in_range lo hi j then None else Some (j, v) | None => None end) (slots m) in
  match removed with
  | [] => (mk_am kept (cnt m), [])
  | _ =>
    let mx := fold_left Nat.max (map fst removed) 0 in
    (mk_am (map_idx (fun j => if mx <? j then j - k else j) kept) (cnt m - k), map snd (sort_by_idx removed))
  end.

(* extend: fill free slots in storage order; surplus values are dropped (zip semantics) *)
Fixpoint extend_aux (sl: list slot) (c: nat) (vals: list T) : list slot * nat :=
  match sl with
  | [] => ([], c)
  | Some p :: sl' => let '(r, c') := extend_aux sl' c vals in (Some p :: r, c')
  | None :: sl' =>
     match vals with
     | [] => (None :: sl', c)
     | v :: vals' => let '(r, c') := extend_aux sl' (S c) vals' in (Some (c, v) :: r, c')
     end
  end.
Definition am_extend (m: am) (vals: list T) : am := let '(s, c) := extend_aux (slots m) (cnt m) vals in mk_am s c.

Definition am_index (m: am) (i: nat) : option T :=
  match find (has_idx i) (slots m) with Some (Some (_, v)) => Some v | _ => None end.

Definition am_set (m: am) (i: nat) (v: T) : option am :=
  match find_idx (has_idx i) (slots m) with Some k => Some (mk_am (set_nth k (Some (i, v)) (slots m)) (cnt m)) | None => None end.

Definition am_from_list (N: nat) (vals: list T) : option am :=
  if N <? length vals then None else
  Some (mk_am (map (fun p => Some p) (combine (seq 0 (length vals)) vals) ++ repeat None (N - length vals)) (length vals)).

(* forward iteration through the lookup table: logical order *)
Definition am_to_list (m: am) : list T := map snd (sort_by_idx (somes (slots m))).
End AM.
