(* Executable variants that follow what the translator reads from /repo:
   - Rope::new() builds NEW_CHUNKS empty chunks (1 on the original tree = defect D1; 0 after the repair);
   - the owning chunk iterator's next_back moves rev_pos down (wrapping_sub(1), the repair of D2) or up (+= 1, the defect).
   The theorems are about the variants with NEW_CHUNKS = 0 and down = true; Props/C09.v and Props/C10.v discharge
   exactly these two equations on the translated constants. *)
From Coq Require Import List Arith Lia Bool.
Import ListNotations.
Require Import S.Slots S.RopePhys S.SlotsIter S.SlotsIterPhys.

Section G.
Context {T: Type}.
Definition rope_new_gen (MAX n: nat) : list (@am T) := repeat (am_new MAX) n.

Definition ph_next_back_gen (down: bool) (s: @pst T) : option T * @pst T :=
  let '(sl, lk, pos, rp) := s in
  match rp with
  | WRAPPED => (None, s)
  | RP k => match take_at sl lk k with
            | Some (v, sl') => (Some v, (sl', lk, pos, if down then match k with 0 => WRAPPED | S k' => RP k' end else RP (S k)))
            | None => (None, s)
            end
  end.
Fixpoint ph_run_gen (down: bool) (calls: list bool) (s: @pst T) : list (option T) :=
  match calls with [] => [] | c :: calls' => let '(o, s') := if c then ph_next s else ph_next_back_gen down s in o :: ph_run_gen down calls' s' end.

Lemma ph_next_back_gen_true s : ph_next_back_gen true s = ph_next_back s.
Proof. destruct s as [[[sl lk] pos] rp]. reflexivity. Qed.
Lemma ph_run_gen_true calls : forall s, ph_run_gen true calls s = ph_run calls s.
Proof. induction calls as [|c calls IH]; intros s; [reflexivity|]. cbn [ph_run_gen ph_run]. rewrite ph_next_back_gen_true.
  destruct (if c then ph_next s else ph_next_back s) as [o s']. rewrite IH. reflexivity. Qed.
End G.
