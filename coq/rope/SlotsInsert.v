From Coq Require Import List Arith Lia Bool Permutation.
Import ListNotations.
Require Import S.ListOps S.Slots S.SlotsBasics S.SlotsOps.

Section I.
Context {T: Type}.
Notation slot := (option (nat * T)).
Notation am := (@Slots.am T).

Lemma nth_error_insert_at (l: list T) pos v0 : pos <= length l -> forall i v,
  nth_error (insert_at pos v0 l) i = Some v <->
  (i = pos /\ v = v0) \/ (i < pos /\ nth_error l i = Some v) \/ (pos < i /\ nth_error l (i - 1) = Some v).
Proof.
  revert pos. induction l as [|x l IH]; intros pos Hp i v.
  - cbn in Hp. assert (pos = 0) by lia. subst. cbn. destruct i as [|i]; cbn.
    + split; [intros [= ->]; auto|intros [[_ ->]|[[H _]|[H _]]]; [reflexivity|lia|lia]].
    + split; [destruct i; discriminate|intros [[H _]|[[H _]|[_ H]]]; try lia; destruct (i - 0); discriminate].
  - destruct pos as [|pos]; cbn [insert_at].
    + destruct i as [|i]; cbn.
      * split; [intros [= ->]; auto|intros [[_ ->]|[[H _]|[H _]]]; [reflexivity|lia|lia]].
      * rewrite Nat.sub_0_r. split; [intros H; right; right; split; [lia|exact H]|intros [[H _]|[[H _]|[_ H]]]; [lia|lia|exact H]].
    + destruct i as [|i]; cbn.
      * split; [intros H; right; left; split; [lia|exact H]|intros [[H _]|[[_ H]|[H _]]]; [lia|exact H|lia]].
      * rewrite (IH pos ltac:(cbn in Hp; lia) i v).
        split; intros [[H1 H2]|[[H1 H2]|[H1 H2]]].
        -- left; split; [lia|exact H2].
        -- right; left; split; [lia|exact H2].
        -- right; right; split; [lia|]. cbn. rewrite Nat.sub_0_r. destruct i; [lia|]. cbn in H2. rewrite Nat.sub_0_r in H2. exact H2.
        -- left; split; [lia|exact H2].
        -- right; left; split; [lia|exact H2].
        -- right; right; split; [lia|]. cbn in H2. rewrite Nat.sub_0_r in H2. destruct i; [lia|]. cbn. rewrite Nat.sub_0_r. exact H2.
Qed.
Lemma length_insert_at (l: list T) pos v : length (insert_at pos v l) = S (length l).
Proof. revert pos. induction l as [|x l IH]; intros [|pos]; cbn; auto. Qed.

Lemma find_idx_map_idx f (sl: list slot) : find_idx is_none (map_idx f sl) = find_idx is_none sl.
Proof. unfold map_idx. induction sl as [|[[j v]|] sl IH]; cbn; [reflexivity| |reflexivity]. rewrite IH. reflexivity. Qed.

Lemma free_slot N (m: am) l : Rep N m l -> length l < N -> exists k, find_idx is_none (slots m) = Some k.
Proof.
  intros R Hl. destruct (find_idx is_none (slots m)) eqn:E; [eauto|exfalso].
  assert (A: forall sl: list slot, find_idx is_none sl = None -> length (somes sl) = length sl).
  { induction sl as [|[p|] sl IH]; cbn; intros H; [reflexivity| |discriminate].
    destruct (find_idx is_none sl); [discriminate|]. f_equal. apply IH. reflexivity. }
  specialize (A _ E). rewrite (Rep_somes_length N m l R) in A. destruct R as (HN & _). lia.
Qed.

Theorem insert_refines N (m: am) (l: list T) pos v0 : Rep N m l -> pos <= length l -> length l < N ->
  exists m' : am, am_insert N m pos v0 = Some m' /\ Rep N m' (insert_at pos v0 l).
Proof.
  intros R Hp Hl. pose proof R as (HN & Hc & Hnd & Hin).
  unfold am_insert. assert (Hlt: (pos <? N) = true) by (apply Nat.ltb_lt; lia). rewrite Hlt. cbn [negb].
  destruct (free_slot N m l R Hl) as [k0 Hk0]. rewrite Hk0.
  set (bump := fun j => if pos <=? j then S j else j).
  rewrite find_idx_map_idx, Hk0. eexists. split; [reflexivity|].
  set (b := map_idx bump (slots m)).
  assert (Hkb: find_idx is_none b = Some k0) by (subst b; rewrite find_idx_map_idx; exact Hk0).
  destruct (find_idx_some _ _ _ None Hkb) as (Hklt & Hnone & _).
  assert (Hn: nth k0 b None = None) by (destruct (nth k0 b None); [discriminate|reflexivity]).
  assert (Sb: somes b = map (fun p => (bump (fst p), snd p)) (somes (slots m))) by (subst b; apply somes_map_idx).
  assert (Snew: Permutation (somes (set_nth k0 (Some (pos, v0)) b)) ((pos, v0) :: somes b)).
  { pose proof (somes_split k0 b Hklt) as Eb. rewrite Hn in Eb. cbn [opt_list app] in Eb.
    rewrite (somes_set_nth k0 (Some (pos, v0)) b Hklt). cbn [opt_list app]. rewrite Eb.
    apply Permutation_sym, Permutation_middle. }
  assert (Inew: forall i v, In (i, v) (somes (set_nth k0 (Some (pos, v0)) b)) <->
                           ((i, v) = (pos, v0) \/ exists j, In (j, v) (somes (slots m)) /\ i = bump j)).
  { intros i v. split.
    - intros H. apply (Permutation_in _ Snew) in H. destruct H as [H|H]; [left; congruence|right].
      rewrite Sb in H. apply in_map_iff in H. destruct H as [[j w] [E Hj]]. cbn in E. injection E as <- <-. eauto.
    - intros H. apply (Permutation_in _ (Permutation_sym Snew)). destruct H as [H|[j [Hj ->]]]; [left; congruence|right].
      rewrite Sb. apply in_map_iff. exists (j, v). split; [reflexivity|exact Hj]. }
  assert (Bspec: forall j, bump j = if pos <=? j then S j else j) by reflexivity.
  repeat split; cbn [slots cnt].
  - rewrite set_nth_length. subst b. rewrite map_idx_length. exact HN.
  - rewrite length_insert_at. lia.
  - eapply Permutation_NoDup; [apply Permutation_sym, Permutation_map, Snew|]. cbn [map fst].
    constructor.
    + rewrite Sb, map_map. cbn [fst]. intros H. apply in_map_iff in H. destruct H as [[j w] [E _]]. cbn [fst] in E. rewrite Bspec in E.
      destruct (Nat.leb_spec pos j); lia.
    + rewrite Sb, map_map. cbn [fst]. rewrite <- (map_map fst bump). apply NoDup_map_inj_in; [|exact Hnd].
      intros x y _ _. rewrite !Bspec. destruct (Nat.leb_spec pos x), (Nat.leb_spec pos y); lia.
  - intros H. apply Inew in H. apply nth_error_insert_at; [exact Hp|].
    destruct H as [H|[j [Hj ->]]]; [injection H as -> ->; left; auto|].
    apply Hin in Hj. rewrite Bspec. destruct (Nat.leb_spec pos j).
    + right; right. split; [lia|]. cbn. rewrite Nat.sub_0_r. exact Hj.
    + right; left. split; [lia|exact Hj].
  - intros H. apply Inew. apply nth_error_insert_at in H; [|exact Hp].
    destruct H as [[-> ->]|[[H1 H2]|[H1 H2]]]; [left; reflexivity| |].
    + right. exists i. split; [apply Hin; exact H2|]. rewrite Bspec. destruct (Nat.leb_spec pos i); lia.
    + right. exists (i - 1). split; [apply Hin; exact H2|]. rewrite Bspec. destruct (Nat.leb_spec pos (i - 1)); lia.
Qed.
End I.
Print Assumptions insert_refines.
