From Coq Require Import List Arith Lia Bool Permutation.
Import ListNotations.
Require Import S.ListOps S.Slots S.SlotsBasics S.SlotsOps S.SlotsInsert S.SlotsSort S.SlotsDrain S.SlotsExtend S.SlotsSwap.
Require Import S.RopeAbs S.RopePhys.

Section SIM.
Context {T: Type}.
Variables (MAX BASE UNDER FIC: nat).
Notation chunk := (@am T).
Notation rope := (list (@am T)).
Notation arope := (list (list T)).
Definition RopeRep (r: rope) (ls: arope) : Prop := Forall2 (Rep MAX) r ls.

Lemma Rep_len (m: chunk) l N : Rep N m l -> am_len m = length l.
Proof. intros (_ & H & _). exact H. Qed.
Lemma Rep_empty (m: chunk) l N : Rep N m l -> am_is_empty m = RopeAbs.is_nil l.
Proof. intros (_ & H & _). unfold am_is_empty. rewrite H. destruct l; reflexivity. Qed.
Lemma Rep_len_le (m: chunk) l N : Rep N m l -> length l <= N.
Proof.
  intros R. pose proof (Rep_somes_length N m l R) as E. destruct R as (HN & _). rewrite <- E, <- HN.
  clear. induction (slots m) as [|s sl IH]; [cbn; lia|]. rewrite somes_cons, app_length. destruct s; cbn [opt_list length]; lia.
Qed.

Lemma kwc_sim : forall (r: rope) (ls: arope) idx index seen, RopeRep r ls ->
  key_with_count_from r idx index seen = a_kwc_from ls idx index seen.
Proof.
  intros r ls idx index seen R. revert idx seen. induction R as [|c l r ls Rc R IH]; intros idx seen; cbn [RopePhys.key_with_count_from RopeAbs.a_kwc_from]; [reflexivity|].
  rewrite (Rep_len c l MAX Rc). destruct (index <? seen + length l); [reflexivity|apply IH].
Qed.

Lemma RopeRep_app r1 r2 l1 l2 : RopeRep r1 l1 -> RopeRep r2 l2 -> RopeRep (r1 ++ r2) (l1 ++ l2).
Proof. apply Forall2_app. Qed.
Lemma RopeRep_rev r ls : RopeRep r ls -> RopeRep (rev r) (rev ls).
Proof. intros R. induction R; cbn; [constructor|]. apply Forall2_app; [assumption|constructor; [assumption|constructor]]. Qed.
Lemma RopeRep_length r ls : RopeRep r ls -> length r = length ls.
Proof. intros R. induction R; cbn; auto. Qed.
Lemma RopeRep_firstn n r ls : RopeRep r ls -> RopeRep (firstn n r) (firstn n ls).
Proof. intros R. revert n. induction R as [|c l r ls Rc R IH]; intros [|n]; cbn [firstn]; try constructor; [exact Rc|apply IH]. Qed.
Lemma RopeRep_skipn n r ls : RopeRep r ls -> RopeRep (skipn n r) (skipn n ls).
Proof. intros R. revert n. induction R as [|c l r ls Rc R IH]; intros [|n]; cbn [skipn]; try constructor; try assumption. apply IH. Qed.
Lemma RopeRep_nth r ls k c : RopeRep r ls -> nth_error r k = Some c -> exists l, nth_error ls k = Some l /\ Rep MAX c l.
Proof. intros R. revert k. induction R as [|c0 l0 r ls Rc0 R IH]; intros [|k] Hn; cbn [nth_error] in *; try discriminate; [injection Hn as <-; eauto|apply IH; exact Hn]. Qed.
Lemma RopeRep_nth_none r ls k : RopeRep r ls -> nth_error r k = None -> nth_error ls k = None.
Proof. intros R H. apply nth_error_None. apply nth_error_None in H. rewrite <- (RopeRep_length r ls R). exact H. Qed.
Lemma RopeRep_set r ls k c l : RopeRep r ls -> Rep MAX c l -> RopeRep (Slots.set_nth k c r) (RopeAbs.set_nth k l ls).
Proof. intros R Rc. revert k. induction R as [|c0 l0 r ls Rc0 R IH]; intros [|k]; cbn [Slots.set_nth RopeAbs.set_nth]; try constructor; try assumption. apply IH. Qed.

(* ---- pull ---- *)
Hypothesis HBM : BASE <= MAX.

Lemma pull_sim : forall (rest: rope) (lrest: arope) (hold: chunk) lh, RopeRep rest lrest -> Rep MAX hold lh -> length lh <= BASE ->
  exists lh' lrest', a_pull BASE lh lrest = (lh', lrest') /\ Rep MAX (fst (pull BASE hold rest)) lh' /\ RopeRep (snd (pull BASE hold rest)) lrest'.
Proof.
  intros rest lrest hold lh R. revert hold lh. induction R as [|c l rest lrest Rc R IH]; intros hold lh Rh Hl.
  - cbn. exists lh, []. split; [reflexivity|split; [exact Rh|constructor]].
  - cbn [pull RopeAbs.a_pull]. rewrite (Rep_len hold lh MAX Rh), (Rep_len c l MAX Rc).
    destruct (length lh =? BASE) eqn:E.
    + exists lh, (l :: lrest). split; [reflexivity|split; [exact Rh|constructor; assumption]].
    + apply Nat.eqb_neq in E. set (k := Nat.min (BASE - length lh) (length l)).
      pose proof (drain_refines MAX c l 0 (Some k) Rc) as D. cbn [hi_of] in D. specialize (D ltac:(subst k; lia)).
      destruct (am_drain c 0 (Some k)) as [c' vals]. cbn [fst snd] in D. destruct D as [D1 D2]. cbn [firstn app] in D1. rewrite Nat.sub_0_r in D2. cbn [skipn] in D2.
      assert (Hv: length vals <= MAX - length lh) by (rewrite D2, firstn_length; subst k; lia).
      pose proof (extend_refines MAX hold lh vals Rh Hv) as Ex.
      destruct (IH (am_extend hold vals) (lh ++ vals) Ex) as (lh' & lrest' & A1 & A2 & A3).
      { rewrite app_length, D2, firstn_length. subst k. lia. }
      rewrite D2 in A1. rewrite A1.
      destruct (pull BASE (am_extend hold vals) rest) as [h r]. cbn [fst snd] in *.
      exists lh', (skipn k l :: lrest'). split; [reflexivity|split; [exact A2|constructor; [exact D1|exact A3]]].
Qed.
End SIM.
