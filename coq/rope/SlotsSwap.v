From Coq Require Import List Arith Lia Bool Permutation FinFun.
Import ListNotations.
Require Import S.ListOps S.Slots S.SlotsBasics S.SlotsOps S.SlotsExtend.

Section W.
Context {T: Type}.
Notation slot := (option (nat * T)).
Notation am := (@Slots.am T).

Lemma somes_map_some (L: list (nat * T)) : somes (map (fun p => Some p) L) = L.
Proof. unfold somes. induction L; cbn; [reflexivity|]. f_equal. assumption. Qed.
Lemma somes_repeat_none n : somes (repeat (@None (nat * T)) n) = [].
Proof. unfold somes. induction n; cbn; auto. Qed.

Theorem from_list_rep N (l: list T) : length l <= N -> exists m : am, am_from_list N l = Some m /\ Rep N m l.
Proof.
  intros H. unfold am_from_list. assert (E: (N <? length l) = false) by (apply Nat.ltb_ge; lia). rewrite E.
  eexists. split; [reflexivity|]. repeat split; cbn [slots cnt].
  - rewrite app_length, map_length, combine_length, seq_length, repeat_length. lia.
  - rewrite somes_app, somes_map_some, somes_repeat_none, app_nil_r, combine_fst_seq. apply seq_NoDup.
  - rewrite somes_app, somes_map_some, somes_repeat_none, app_nil_r. intros Hi. apply in_combine_seq in Hi. rewrite Nat.sub_0_r in Hi. tauto.
  - rewrite somes_app, somes_map_some, somes_repeat_none, app_nil_r. intros Hi. apply in_combine_seq. rewrite Nat.sub_0_r. split; [lia|exact Hi].
Qed.

Theorem new_rep N : Rep N (@am_new T N) [].
Proof.
  unfold am_new. repeat split; cbn [slots cnt length].
  - apply repeat_length.
  - rewrite somes_repeat_none. constructor.
  - rewrite somes_repeat_none. intros [].
  - intros H. destruct i; discriminate.
Qed.

(* swap = renaming of logical indices by the transposition (a b) *)
Definition transp (a b j: nat) : nat := if j =? a then b else if j =? b then a else j.
Lemma transp_invol a b j : transp a b (transp a b j) = j.
Proof. unfold transp. destruct (Nat.eqb_spec j a), (Nat.eqb_spec j b); subst; repeat (rewrite ?Nat.eqb_refl; try match goal with |- context [?x =? ?y] => destruct (Nat.eqb_spec x y) end); lia. Qed.
Lemma transp_inj a b : Injective (transp a b).
Proof. intros x y H. rewrite <- (transp_invol a b x), <- (transp_invol a b y), H. reflexivity. Qed.

Definition swap_list (a b: nat) (l: list T) : list T :=
  match nth_error l a, nth_error l b with Some x, Some y => update a y (update b x l) | _, _ => l end.

Lemma nth_error_swap_list (l: list T) a b : a < length l -> b < length l -> forall i, nth_error (swap_list a b l) i = nth_error l (transp a b i).
Proof.
  intros Ha Hb i. unfold swap_list.
  destruct (nth_error l a) as [x|] eqn:Ea; [|apply nth_error_None in Ea; lia].
  destruct (nth_error l b) as [y|] eqn:Eb; [|apply nth_error_None in Eb; lia].
  unfold transp.
  destruct (nth_error (update a y (update b x l)) i) as [v|] eqn:E.
  - apply nth_error_update in E; [|rewrite length_update; exact Ha]. destruct E as [[-> ->]|[Hne E]].
    + rewrite Nat.eqb_refl. symmetry. exact Eb.
    + apply nth_error_update in E; [|exact Hb]. destruct E as [[-> ->]|[Hne2 E]].
      * destruct (Nat.eqb_spec b a); [congruence|]. rewrite Nat.eqb_refl. symmetry. exact Ea.
      * destruct (Nat.eqb_spec i a); [congruence|]. destruct (Nat.eqb_spec i b); [congruence|]. symmetry. exact E.
  - apply nth_error_None in E. rewrite !length_update in E.
    destruct (Nat.eqb_spec i a); [lia|]. destruct (Nat.eqb_spec i b); [lia|]. symmetry. apply nth_error_None. exact E.
Qed.
Lemma length_swap_list a b (l: list T) : length (swap_list a b l) = length l.
Proof. unfold swap_list. destruct (nth_error l a), (nth_error l b); rewrite ?length_update; reflexivity. Qed.

Lemma nth_map_idx f (sl: list slot) k : nth k (map_idx f sl) None = match nth k sl None with Some (j, v) => Some (f j, v) | None => None end.
Proof. unfold map_idx. revert k. induction sl as [|s sl IH]; intros [|k]; cbn; try reflexivity. apply IH. Qed.
Lemma nth_set_nth {A} (l: list A) k x d j : k < length l -> nth j (set_nth k x l) d = if j =? k then x else nth j l d.
Proof. revert k j. induction l as [|y l IH]; intros [|k] [|j] H; cbn in *; try lia; try reflexivity. apply IH. lia. Qed.

Theorem swap_refines N (m: am) (l: list T) a b : Rep N m l -> a < length l -> b < length l ->
  exists m' : am, am_swap m a b = Some m' /\ Rep N m' (swap_list a b l).
Proof.
  intros R Ha Hb. pose proof R as (HN & Hc & Hnd & Hin). unfold am_swap.
  destruct (Nat.eqb_spec a b) as [->|Hab].
  { exists m. split; [reflexivity|]. assert (swap_list b b l = l); [|congruence].
    unfold swap_list. destruct (nth_error l b) as [x|] eqn:E; [|reflexivity].
    apply nth_error_split in E. destruct E as (l1 & l2 & -> & <-). rewrite !update_app. reflexivity. }
  destruct (nth_error l a) as [x|] eqn:Ea; [|apply nth_error_None in Ea; lia].
  destruct (nth_error l b) as [y|] eqn:Eb; [|apply nth_error_None in Eb; lia].
  destruct (locate N m l a x R Ea) as (ka & Fa & Ka & Hva & _).
  destruct (locate N m l b y R Eb) as (kb & Fb & Kb & Hvb & _).
  rewrite Fa, Fb, Hva, Hvb. eexists. split; [reflexivity|].
  assert (Hk: ka <> kb) by (intros ->; rewrite Hva in Hvb; congruence).
  assert (Eq: set_nth ka (Some (b, x)) (set_nth kb (Some (a, y)) (slots m)) = map_idx (transp a b) (slots m)).
  { apply nth_ext with (d := None) (d' := None); [rewrite !set_nth_length, map_idx_length; reflexivity|].
    rewrite !set_nth_length. intros j Hj. rewrite nth_set_nth by (rewrite set_nth_length; exact Ka). rewrite nth_set_nth by exact Kb. rewrite nth_map_idx.
    destruct (Nat.eqb_spec j ka) as [->|Hja]; [rewrite Hva; unfold transp; rewrite Nat.eqb_refl; reflexivity|].
    destruct (Nat.eqb_spec j kb) as [->|Hjb]; [rewrite Hvb; unfold transp; destruct (Nat.eqb_spec b a); [congruence|]; rewrite Nat.eqb_refl; reflexivity|].
    destruct (nth j (slots m) None) as [[i v]|] eqn:Ej; [|reflexivity].
    assert (Hi: In (i, v) (somes (slots m))) by (apply in_somes; rewrite <- Ej; apply nth_In; exact Hj).
    (* i is neither a nor b: those indices live at ka and kb only *)
    assert (i <> a).
    { intros ->. assert (v = x) by (eapply (Rep_unique N m l a v x R); [exact Hi|apply Hin; exact Ea]). subst v.
      (* two positions with the same key contradict NoDup *)
      pose proof (NoDup_nth (map fst (somes (slots m))) 0) as ND. clear ND.
      destruct (find_idx_some _ _ _ None Fa) as (_ & _ & Fst). destruct (Nat.lt_ge_cases j ka) as [Hlt|Hge].
      - specialize (Fst j Hlt). rewrite Ej in Fst. cbn in Fst. rewrite Nat.eqb_refl in Fst. discriminate.
      - (* j > ka: both slots carry key a; count occurrences *)
        assert (Hdup: ~ NoDup (map fst (somes (slots m)))).
        { rewrite (somes_split ka (slots m) Ka), Hva. cbn [opt_list app]. rewrite map_app. cbn [map fst]. intros ND. apply NoDup_remove_2 in ND. apply ND.
          apply in_app_iff. right. apply in_map_iff. exists (a, x). split; [reflexivity|]. apply in_somes.
          assert (Hj': j = S ka + (j - S ka)) by lia. rewrite Hj' in Ej. rewrite <- nth_skipn in Ej. rewrite <- Ej. apply nth_In. rewrite skipn_length. lia. }
        contradiction. }
    assert (i <> b).
    { intros ->. assert (v = y) by (eapply (Rep_unique N m l b v y R); [exact Hi|apply Hin; exact Eb]). subst v.
      destruct (find_idx_some _ _ _ None Fb) as (_ & _ & Fst). destruct (Nat.lt_ge_cases j kb) as [Hlt|Hge].
      - specialize (Fst j Hlt). rewrite Ej in Fst. cbn in Fst. rewrite Nat.eqb_refl in Fst. discriminate.
      - assert (Hdup: ~ NoDup (map fst (somes (slots m)))).
        { rewrite (somes_split kb (slots m) Kb), Hvb. cbn [opt_list app]. rewrite map_app. cbn [map fst]. intros ND. apply NoDup_remove_2 in ND. apply ND.
          apply in_app_iff. right. apply in_map_iff. exists (b, y). split; [reflexivity|]. apply in_somes.
          assert (Hj': j = S kb + (j - S kb)) by lia. rewrite Hj' in Ej. rewrite <- nth_skipn in Ej. rewrite <- Ej. apply nth_In. rewrite skipn_length. lia. }
        contradiction. }
    unfold transp. destruct (Nat.eqb_spec i a); [congruence|]. destruct (Nat.eqb_spec i b); [congruence|]. reflexivity. }
  rewrite Eq. repeat split; cbn [slots cnt].
  - rewrite map_idx_length. exact HN.
  - rewrite length_swap_list. exact Hc.
  - rewrite somes_map_idx, map_map. cbn [fst]. rewrite <- (map_map fst (transp a b)). apply Injective_map_NoDup; [apply transp_inj|exact Hnd].
  - rewrite somes_map_idx. intros H. apply in_map_iff in H. destruct H as [[j w] [E Hj]]. cbn in E. injection E as <- <-.
    rewrite nth_error_swap_list by assumption. rewrite transp_invol. apply Hin. exact Hj.
  - rewrite somes_map_idx. intros H. rewrite nth_error_swap_list in H by assumption. apply Hin in H.
    apply in_map_iff. exists (transp a b i, v). split; [cbn; rewrite transp_invol; reflexivity|exact H].
Qed.
End W.
Print Assumptions swap_refines.
