From Coq Require Import List Arith Lia Bool.
Import ListNotations.
Require Import S.ListOps S.RopeAbs S.RopeAbsProofs.
Arguments RopeAbs.a_chunks_of : simpl never.

Section AI.
Context {T: Type}.
Variables (MAX BASE UNDER: nat).
Hypothesis HBASE : 1 <= BASE.
Hypothesis HBM : BASE <= MAX - 1.
Hypothesis HHIGH : RopeAbs.HIGH BASE <= MAX - 1.
Notation chunk := (list T).
Notation arope := (list (list T)).
Notation a_pull := (@RopeAbs.a_pull T BASE).
Notation a_reb_loop := (@RopeAbs.a_reb_loop T BASE).
Notation a_rebalance := (@RopeAbs.a_rebalance T BASE).
Notation a_chunks_of := (@RopeAbs.a_chunks_of T BASE).
Notation LOW := (RopeAbs.LOW BASE).
Notation HIGH := (RopeAbs.HIGH BASE).

Definition Bnd (r: arope) := Forall (fun c : chunk => length c <= MAX - 1) r.
Definition NonEmpty (r: arope) := Forall (fun c : chunk => 1 <= length c) r.
Definition Inv (r: arope) := Bnd r /\ NonEmpty r.
(* the state rebalance starts from: every chunk within bounds except that the first one may be exactly full *)
Definition HeadOk (rest: arope) := match rest with [] => True | e :: rs => length e <= MAX /\ Bnd rs end.
Definition has_nonnil (r: arope) := exists c, In c r /\ c <> [].

Lemma Bnd_HeadOk rest : Bnd rest -> HeadOk rest.
Proof. destruct rest; [exact (fun _ => I)|]. intros B. inversion B; subst. split; [lia|assumption]. Qed.

Lemma Bnd_le (r r': arope) : Forall2 (fun c' c : chunk => length c' <= length c) r' r -> Bnd r -> Bnd r'.
Proof. unfold Bnd. intros F. induction F as [|c' c r' r Hc F IH]; intros B; [constructor|]. inversion B; subst. constructor; [lia|apply IH; assumption]. Qed.

Lemma reb_loop_props : forall fuel done_rev rest carry chunks carry',
  length rest <= fuel ->
  a_reb_loop fuel done_rev rest carry = (chunks, carry') ->
  Bnd done_rev -> HeadOk rest -> (carry <> [] -> has_nonnil done_rev) ->
  Bnd chunks /\ (carry' <> [] -> has_nonnil chunks).
Proof.
  induction fuel as [|fuel IH]; intros done_rev rest carry chunks carry' Hf H Bd Hr Hc; cbn [RopeAbs.a_reb_loop] in H.
  - destruct rest; [|cbn in Hf; lia]. injection H as <- <-. rewrite app_nil_r. split.
    + unfold Bnd. apply Forall_rev. exact Bd.
    + intros C. destruct (Hc C) as [c [I1 I2]]. exists c. split; [apply -> in_rev; exact I1|exact I2].
  - destruct rest as [|entry rest].
    { injection H as <- <-. split; [unfold Bnd; apply Forall_rev; exact Bd|].
      intros C. destruct (Hc C) as [c [I1 I2]]. exists c. split; [apply -> in_rev; exact I1|exact I2]. }
    cbn in Hf. destruct Hr as [He Br].
    assert (Push: forall x, length x <= MAX - 1 -> Bnd (x :: done_rev)) by (intros x Hx; constructor; assumption).
    destruct (is_nil entry) eqn:En.
    { apply is_nil_true in En. subst entry. eapply IH; [| exact H | | |]; [lia|apply Push; cbn; lia|apply Bnd_HeadOk; exact Br|].
      intros C. destruct (Hc C) as [c [I1 I2]]. exists c. split; [right; exact I1|exact I2]. }
    destruct ((LOW <=? length entry) && (length entry <=? HIGH) && is_nil carry) eqn:Eb.
    { apply andb_true_iff in Eb. destruct Eb as [Eb Ec]. apply andb_true_iff in Eb. destruct Eb as [_ Eh]. apply Nat.leb_le in Eh.
      apply is_nil_true in Ec. subst carry. injection H as <- <-. split; [|intros C; congruence].
      unfold Bnd. apply Forall_app. split; [apply Forall_rev; exact Bd|]. constructor; [lia|exact Br]. }
    clear Eb. apply is_nil_false in En. destruct (length entry <? BASE) eqn:El.
    + apply Nat.ltb_lt in El. destruct (is_nil carry) eqn:Ec.
      * apply is_nil_true in Ec. subst carry.
        destruct (a_pull entry rest) as [hold' rest''] eqn:Ep.
        assert (Hel: length entry <= BASE) by lia.
        destruct (pull_concat BASE _ _ _ _ Hel Ep) as (_ & P2 & P3 & P4 & P5).
        eapply IH; [| exact H | | |]; [lia|apply Push; lia|apply Bnd_HeadOk; eapply Bnd_le; eassumption|]. intros C; congruence.
      * set (c := carry ++ entry) in *.
        destruct (a_pull (firstn BASE c) rest) as [hold' rest''] eqn:Ep.
        assert (Hfl: length (firstn BASE c) <= BASE) by (rewrite firstn_length; lia).
        destruct (pull_concat BASE _ _ _ _ Hfl Ep) as (_ & P2 & P3 & P4 & P5).
        eapply IH; [| exact H | | |]; [lia|apply Push; lia|apply Bnd_HeadOk; eapply Bnd_le; eassumption|].
        intros C. exists hold'. split; [left; reflexivity|]. intros ->. cbn in P4.
        assert (length c >= 1) by (subst c; rewrite app_length; destruct entry; [congruence|cbn; lia]).
        rewrite firstn_length in P4. lia.
    + apply Nat.ltb_ge in El. destruct ((length entry =? BASE) && is_nil carry) eqn:Ee.
      * apply andb_true_iff in Ee. destruct Ee as [Ee Ec]. apply Nat.eqb_eq in Ee. apply is_nil_true in Ec. subst carry.
        eapply IH; [| exact H | | |]; [lia|apply Push; lia|apply Bnd_HeadOk; exact Br|]. intros C; congruence.
      * destruct (negb (is_nil carry)) eqn:Ec.
        -- eapply IH; [| exact H | | |]; [lia|apply Push; rewrite firstn_length; lia|apply Bnd_HeadOk; exact Br|].
           intros _. exists (firstn BASE (carry ++ entry)). split; [left; reflexivity|]. intros C. apply (f_equal (@length _)) in C.
           rewrite firstn_length, app_length in C. cbn in C. destruct entry; [congruence|cbn in C; lia].
        -- eapply IH; [| exact H | | |]; [lia|apply Push; rewrite firstn_length; lia|apply Bnd_HeadOk; exact Br|].
           intros _. exists (firstn BASE entry). split; [left; reflexivity|]. intros C. apply (f_equal (@length _)) in C.
           rewrite firstn_length in C. cbn in C. destruct entry; [congruence|cbn in C; lia].
Qed.

Lemma chunks_of_props : forall fuel carry, length carry < fuel ->
  Bnd (a_chunks_of fuel carry) /\ NonEmpty (a_chunks_of fuel carry).
Proof.
  induction fuel as [|fuel IH]; intros carry H; [lia|]. rewrite chunks_of_S.
  destruct (Nat.ltb_spec BASE (length carry)).
  - destruct (IH (skipn BASE carry) ltac:(rewrite skipn_length; lia)) as [I1 I2].
    split; (constructor; [rewrite firstn_length; lia|assumption]).
  - destruct carry as [|x carry]; [split; constructor|]. split; (constructor; [cbn in *; lia|constructor]).
Qed.

Lemma filter_nonnil_props (r: arope) : Bnd r -> Bnd (filter (fun c => negb (is_nil c)) r) /\ NonEmpty (filter (fun c => negb (is_nil c)) r).
Proof.
  intros B. induction B as [|c r Hc B IH]; [split; constructor|]. cbn [filter]. destruct IH as [I1 I2].
  destruct c; cbn; [split; assumption|]. split; constructor; try assumption; cbn; lia.
Qed.

Theorem a_rebalance_inv (r: arope) start :
  Bnd (firstn start r) -> HeadOk (skipn start r) ->
  exists r', a_rebalance r start = Some r' /\ Inv r'.
Proof.
  intros B1 B2. unfold RopeAbs.a_rebalance.
  destruct (a_reb_loop (S (length r)) (rev (firstn start r)) (skipn start r) []) as [chunks carry] eqn:E.
  assert (Hfu: length (skipn start r) <= S (length r)) by (rewrite skipn_length; lia).
  destruct (reb_loop_props _ _ _ _ _ _ Hfu E) as [Bc Nc];
    [unfold Bnd; apply Forall_rev; exact B1|exact B2|congruence|].
  destruct (filter_nonnil_props chunks Bc) as [Bk Nk].
  destruct carry as [|x carry]; [eexists; split; [reflexivity|split; assumption]|].
  destruct (Nc ltac:(discriminate)) as [c0 [I1 I2]].
  assert (Hin: In c0 (filter (fun c => negb (is_nil c)) chunks)) by (apply filter_In; split; [exact I1|destruct c0; [congruence|reflexivity]]).
  destruct (rev (filter (fun c => negb (is_nil c)) chunks)) as [|last init_rev] eqn:Er.
  { exfalso. apply in_rev in Hin. rewrite Er in Hin. contradiction. }
  eexists. split; [reflexivity|].
  assert (Ek: filter (fun c => negb (is_nil c)) chunks = rev init_rev ++ [last]) by (rewrite <- (rev_involutive (filter _ chunks)), Er; reflexivity).
  rewrite Ek in Bk, Nk. unfold Bnd, NonEmpty in *. apply Forall_app in Bk. apply Forall_app in Nk. destruct Bk as [Bk1 Bk2]. destruct Nk as [Nk1 Nk2].
  inversion Bk2; subst. inversion Nk2; subst.
  assert (Hfc: length (skipn (Nat.min (BASE - length last) (length (x :: carry))) (x :: carry)) < S (length (x :: carry))) by (rewrite skipn_length; lia).
  destruct (chunks_of_props _ _ Hfc) as [C1 C2].
  split; unfold Bnd, NonEmpty; (apply Forall_app; split; [assumption|]); (apply Forall_app; split; [|assumption]); constructor; try constructor; rewrite app_length, firstn_length; lia.
Qed.
End AI.
Print Assumptions a_rebalance_inv.
