(* Rope::swap: abstract definition, list semantics, invariant, simulation by the physical rope *)
From Coq Require Import List Arith Lia Bool Permutation.
Import ListNotations.
Require Import S.ListOps S.Slots S.SlotsBasics S.SlotsOps S.SlotsInsert S.SlotsSort S.SlotsDrain S.SlotsExtend S.SlotsSwap.
Require Import S.RopeAbs S.RopeAbsProofs S.RopeAbsInv S.RopeAbsOps S.RopeAbsDrain S.RopePhys S.RopeSim1 S.RopeSim2 S.RopeSim3.

Section SWL.
Context {T: Type}.
(* pure list facts about swapping two positions *)
Lemma nth_error_app_mid (P C: list T) i : nth_error (P ++ C) (length P + i) = nth_error C i.
Proof. induction P; cbn; [reflexivity|assumption]. Qed.
Lemma nth_error_app_in (C Q: list T) i : i < length C -> nth_error (C ++ Q) i = nth_error C i.
Proof. intros H. apply nth_error_app1. exact H. Qed.
Lemma upd_app_mid (A B: list T) j v : update (length A + j) v (A ++ B) = A ++ update j v B.
Proof. induction A; cbn; [reflexivity|]. f_equal. assumption. Qed.
Lemma upd_app_l (A B: list T) j v : j < length A -> update j v (A ++ B) = update j v A ++ B.
Proof. revert j. induction A as [|a A IH]; intros [|j] H; cbn in *; try lia; try reflexivity. f_equal. apply IH. lia. Qed.
Lemma len_upd (l: list T) pos v : length (update pos v l) = length l.
Proof. revert pos. induction l as [|x l IH]; intros [|pos]; cbn; auto. Qed.
Lemma swap_list_same_chunk (P C Q: list T) i j : i < length C -> j < length C ->
  swap_list (length P + i) (length P + j) (P ++ C ++ Q) = P ++ swap_list i j C ++ Q.
Proof.
  intros Hi Hj. unfold swap_list. rewrite !nth_error_app_mid, !nth_error_app_in by assumption.
  destruct (nth_error C i) as [x|] eqn:Ei; [|apply nth_error_None in Ei; lia].
  destruct (nth_error C j) as [y|] eqn:Ej; [|apply nth_error_None in Ej; lia].
  rewrite !upd_app_mid. f_equal. rewrite upd_app_l by exact Hj. rewrite upd_app_l by (rewrite len_upd; exact Hi). reflexivity.
Qed.
Lemma swap_list_two_chunks (P C M C2 Q: list T) i j x y : nth_error C i = Some x -> nth_error C2 j = Some y ->
  swap_list (length P + i) (length P + (length C + (length M + j))) (P ++ C ++ M ++ C2 ++ Q) = P ++ update i y C ++ M ++ update j x C2 ++ Q.
Proof.
  intros Hx Hy. assert (Hi: i < length C) by (apply nth_error_Some; congruence). assert (Hj: j < length C2) by (apply nth_error_Some; congruence).
  unfold swap_list. rewrite !nth_error_app_mid. rewrite (nth_error_app_in C _ i Hi), Hx. rewrite (nth_error_app_in C2 _ j Hj), Hy.
  rewrite !upd_app_mid. f_equal. rewrite (upd_app_l C2) by exact Hj.
  rewrite upd_app_l by exact Hi. reflexivity.
Qed.
End SWL.

Section SW.
Context {T: Type}.
Variables (MAX BASE: nat).
Hypothesis HBASE : 1 <= BASE.
Hypothesis HBM : BASE <= MAX - 1.
Hypothesis HHIGH : RopeAbs.HIGH BASE <= MAX - 1.
Notation chunk := (@am T).
Notation rope := (list (@am T)).
Notation arope := (list (list T)).
Notation RopeRep := (@RopeSim1.RopeRep T MAX).
Notation Inv := (@RopeAbsInv.Inv T MAX).
Notation flat := (@RopeAbs.flat T).

Definition a_swap (r: arope) (a0 b0: nat) : option arope :=
  let a := Nat.min a0 b0 in let b := Nat.max a0 b0 in
  let '(lk, lc) := a_kwc r a in
  let '(rk, rc) := a_kwc_from_prev r b lk lc in
  if lk =? rk then
    match nth_error r lk with
    | Some ch => if (a - lc <? length ch) && (b - lc <? length ch) then Some (RopeAbs.set_nth lk (swap_list (a - lc) (b - lc) ch) r) else None
    | None => None end
  else
    match nth_error r lk, nth_error r rk with
    | Some lch, Some rch =>
        match nth_error lch (a - lc), nth_error rch (b - rc) with
        | Some x, Some y => Some (RopeAbs.set_nth rk (update (b - rc) x rch) (RopeAbs.set_nth lk (update (a - lc) y lch) r))
        | _, _ => None end
    | _, _ => None
    end.

Theorem a_swap_ok (r: arope) a0 b0 : Inv r -> a0 < length (flat r) -> b0 < length (flat r) ->
  exists r', a_swap r a0 b0 = Some r' /\ flat r' = swap_list (Nat.min a0 b0) (Nat.max a0 b0) (flat r) /\ Inv r'.
Proof.
  intros I Ha0 Hb0. unfold a_swap. set (a := Nat.min a0 b0). set (b := Nat.max a0 b0).
  assert (Hab: a <= b) by (subst a b; lia). assert (Hb: b < length (flat r)) by (subst b; lia). clearbody a b. clear Ha0 Hb0.
  unfold RopeAbs.flat in *.
  destruct (a_kwc_in r a ltac:(lia)) as (pre & ch & post & -> & K & Hr). rewrite K.
  destruct (Inv_split MAX pre ch post I) as (B1 & B2 & N1 & N2 & Hc).
  set (lc := length (concat pre)) in *.
  unfold RopeAbs.a_kwc_from_prev. assert (E0: (b <? lc) = false) by (apply Nat.ltb_ge; lia). rewrite E0. rewrite skipn_mid.
  pose proof (a_kwc_from_spec (ch :: post) (length pre) b lc ltac:(lia)) as Sp.
  destruct (a_kwc_from (ch :: post) (length pre) b lc) as [rk rc]. destruct Sp as [Sp _].
  assert (Htot: b < lc + length (concat (ch :: post))).
  { rewrite !concat_app, !app_length in Hb. cbn [concat] in *. rewrite app_length in *. subst lc. lia. }
  destruct (Sp Htot) as (pre2 & ch2 & post2 & E2 & -> & -> & Hr2). clear Sp.
  destruct pre2 as [|c0 mid]; cbn [app] in E2; injection E2 as E2a E2b.
  - (* same chunk *) subst ch2 post2. cbn [length concat]. rewrite Nat.add_0_r, Nat.eqb_refl. cbn [length concat] in Hr2. rewrite Nat.add_0_r in Hr2.
    rewrite nth_error_mid.
    assert (G: (a - lc <? length ch) && (b - lc <? length ch) = true) by (rewrite andb_true_iff, !Nat.ltb_lt; lia). rewrite G.
    rewrite set_nth_mid. eexists. split; [reflexivity|]. split.
    + rewrite !concat_app. cbn [concat].
      assert (Ea: a = length (concat pre) + (a - lc)) by (subst lc; lia). assert (Eb: b = length (concat pre) + (b - lc)) by (subst lc; lia).
      rewrite Ea at 2. rewrite Eb at 2. rewrite swap_list_same_chunk by lia. reflexivity.
    + apply (Inv_join MAX BASE HBASE HBM HHIGH); auto. rewrite length_swap_list. lia.
  - (* two chunks *) subst c0 post.
    cbn [length concat] in *. replace (length (ch ++ concat mid)) with (length ch + length (concat mid)) in * by (symmetry; apply app_length).
    assert (Ek: (length pre =? length pre + S (length mid)) = false) by (apply Nat.eqb_neq; lia). rewrite Ek.
    rewrite nth_error_mid.
    assert (Post: RopeAbsInv.Bnd MAX mid /\ RopeAbsInv.Bnd MAX post2 /\ RopeAbsInv.NonEmpty mid /\ RopeAbsInv.NonEmpty post2 /\ 1 <= length ch2 <= MAX - 1).
    { apply (Inv_split MAX mid ch2 post2). split; assumption. }
    destruct Post as (Bm & Bp2 & Nm & Np2 & Hc2).
    assert (Nr: nth_error (pre ++ ch :: mid ++ ch2 :: post2) (length pre + S (length mid)) = Some ch2).
    { rewrite nth_error_app2 by lia. replace (length pre + S (length mid) - length pre) with (S (length mid)) by lia. cbn [nth_error]. apply nth_error_mid. }
    rewrite Nr.
    set (rc := lc + (length ch + length (concat mid))) in *.
    destruct (nth_error ch (a - lc)) as [x|] eqn:Ex; [|apply nth_error_None in Ex; lia].
    destruct (nth_error ch2 (b - rc)) as [y|] eqn:Ey; [|apply nth_error_None in Ey; lia].
    rewrite set_nth_mid.
    assert (S2: RopeAbs.set_nth (length pre + S (length mid)) (update (b - rc) x ch2) (pre ++ update (a - lc) y ch :: mid ++ ch2 :: post2)
                = pre ++ update (a - lc) y ch :: mid ++ update (b - rc) x ch2 :: post2).
    { replace (pre ++ update (a - lc) y ch :: mid ++ ch2 :: post2) with ((pre ++ update (a - lc) y ch :: mid) ++ ch2 :: post2) by (rewrite <- app_assoc; reflexivity).
      replace (length pre + S (length mid)) with (length (pre ++ update (a - lc) y ch :: mid)) by (rewrite app_length; cbn; lia).
      rewrite set_nth_mid. rewrite <- app_assoc. reflexivity. }
    rewrite S2. eexists. split; [reflexivity|]. split.
    + rewrite !concat_app. cbn [concat]. rewrite !concat_app. cbn [concat].
      assert (Ea: a = length (concat pre) + (a - lc)) by (subst lc; lia).
      assert (Eb: b = length (concat pre) + (length ch + (length (concat mid) + (b - rc)))) by (subst lc rc; lia).
      rewrite Ea at 2. rewrite Eb at 2. rewrite (swap_list_two_chunks _ _ _ _ _ _ _ x y Ex Ey). reflexivity.
    + split; (apply Forall_app; split; [assumption|]); (constructor; [rewrite ?length_update; lia|]); (apply Forall_app; split; [assumption|]); (constructor; [rewrite ?length_update; lia|assumption]).
Qed.

Theorem swap_sim (r: rope) (ls: arope) a0 b0 ls' : RopeRep r ls ->
  a_swap ls a0 b0 = Some ls' -> exists r', rope_swap r a0 b0 = Some r' /\ RopeRep r' ls'.
Proof.
  intros R. unfold rope_swap, a_swap, key_with_count, RopeAbs.a_kwc.
  set (a := Nat.min a0 b0). set (b := Nat.max a0 b0). clearbody a b.
  rewrite (kwc_sim MAX r ls 0 a 0 R). destruct (a_kwc_from ls 0 a 0) as [lk lc].
  unfold key_with_count_from_prev, RopeAbs.a_kwc_from_prev.
  rewrite (kwc_sim MAX (skipn lk r) (skipn lk ls) lk b lc (RopeRep_skipn MAX lk r ls R)).
  destruct (if b <? lc then (lk, lc) else a_kwc_from (skipn lk ls) lk b lc) as [rk rc].
  destruct (lk =? rk).
  - destruct (nth_error r lk) as [ch|] eqn:Nk; [|rewrite (RopeRep_nth_none MAX r ls lk R Nk); discriminate].
    destruct (RopeRep_nth MAX r ls lk ch R Nk) as (lch & Nl & Rc). rewrite Nl.
    destruct ((a - lc <? length lch) && (b - lc <? length lch)) eqn:G; [|discriminate].
    apply andb_true_iff in G. destruct G as [G1 G2]. apply Nat.ltb_lt in G1. apply Nat.ltb_lt in G2.
    destruct (swap_refines MAX ch lch (a - lc) (b - lc) Rc G1 G2) as (ch' & I1 & I2). rewrite I1. cbn [Slots.bind].
    intros [= <-]. eexists. split; [reflexivity|]. apply (RopeRep_set MAX r ls lk ch' _ R I2).
  - destruct (nth_error r lk) as [lch|] eqn:Nl; [|rewrite (RopeRep_nth_none MAX r ls lk R Nl); discriminate].
    destruct (RopeRep_nth MAX r ls lk lch R Nl) as (llch & Nll & Rl). rewrite Nll.
    destruct (nth_error r rk) as [rch|] eqn:Nr; [|rewrite (RopeRep_nth_none MAX r ls rk R Nr); discriminate].
    destruct (RopeRep_nth MAX r ls rk rch R Nr) as (lrch & Nlr & Rr). rewrite Nlr.
    rewrite (index_refines MAX lch llch _ Rl), (index_refines MAX rch lrch _ Rr).
    destruct (nth_error llch (a - lc)) as [x|] eqn:Ex; [|discriminate].
    destruct (nth_error lrch (b - rc)) as [y|] eqn:Ey; [|discriminate]. cbn [Slots.bind].
    destruct (set_refines MAX lch llch (a - lc) x y Rl Ex) as (lch' & I1 & I2). rewrite I1. cbn [Slots.bind].
    destruct (set_refines MAX rch lrch (b - rc) y x Rr Ey) as (rch' & J1 & J2). rewrite J1. cbn [Slots.bind].
    intros [= <-]. eexists. split; [reflexivity|]. apply RopeRep_set; [apply RopeRep_set; assumption|assumption].
Qed.
End SW.
Print Assumptions a_swap_ok. Print Assumptions swap_sim.
