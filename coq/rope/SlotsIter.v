(* The owning iterator of the slot array (next / next_back with take()), at the level of the looked-up value table:
   after the repair of D2 (rev_pos = rev_pos.wrapping_sub(1)) it is a double-ended queue over the represented list. *)
From Coq Require Import List Arith Lia Bool.
Import ListNotations.

Section IT.
Context {T: Type}.
Inductive rpos := RP (k: nat) | WRAPPED.                      (* usize::MAX after wrapping below 0: out of every table *)
Definition ist : Type := list (option T) * nat * rpos.       (* table in logical order (None = taken), pos, rev_pos *)

Fixpoint set_none (k: nat) (vs: list (option T)) {struct vs} : list (option T) :=
  match vs with [] => [] | x :: r => match k with 0 => None :: r | S k' => x :: set_none k' r end end.

Definition it_init (l: list T) : ist := (map Some l, 0, RP (length l - 1)).
Definition it_next (s: ist) : option T * ist :=
  let '(vs, pos, rp) := s in
  match nth_error vs pos with
  | Some (Some v) => (Some v, (set_none pos vs, S pos, rp))
  | _ => (None, s)
  end.
Definition it_next_back (s: ist) : option T * ist :=
  let '(vs, pos, rp) := s in
  match rp with
  | WRAPPED => (None, s)
  | RP k => match nth_error vs k with
            | Some (Some v) => (Some v, (set_none k vs, pos, match k with 0 => WRAPPED | S k' => RP k' end))
            | _ => (None, s)
            end
  end.
Fixpoint it_run (calls: list bool) (s: ist) : list (option T) :=
  match calls with [] => [] | c :: calls' => let '(o, s') := if c then it_next s else it_next_back s in o :: it_run calls' s' end.

(* specification: a deque over l; f taken from the front, b from the back *)
Fixpoint dq_run (l: list T) (calls: list bool) (f b: nat) : list (option T) :=
  match calls with
  | [] => []
  | c :: calls' =>
      if f + b <? length l then
        if c then nth_error l f :: dq_run l calls' (S f) b else nth_error l (length l - 1 - b) :: dq_run l calls' f (S b)
      else None :: dq_run l calls' f b
  end.

Definition empty_at (vs: list (option T)) (i: nat) : Prop := nth_error vs i = None \/ nth_error vs i = Some None.   (* reads as "nothing here" *)
Definition inv (l: list T) (f b: nat) (s: ist) : Prop :=
  let '(vs, pos, rp) := s in
  f + b <= length l /\ pos = f /\
  (forall i, (f <= i < length l - b -> nth_error vs i = option_map Some (nth_error l i)) /\ (~ (f <= i < length l - b) -> empty_at vs i)) /\
  rp = (if (b <? length l) || (length l =? 0) then RP (length l - 1 - b) else WRAPPED).

Lemma nth_set_none vs k i : nth_error (set_none k vs) i = if (i =? k) && (i <? length vs) then Some None else nth_error vs i.
Proof.
  revert k i. induction vs as [|x vs IH]; intros k i; cbn.
  - destruct i; cbn; rewrite ?andb_false_r; reflexivity.
  - destruct k as [|k]; destruct i as [|i]; cbn; try reflexivity. rewrite IH. reflexivity.
Qed.
Lemma length_set_none vs k : length (set_none k vs) = length vs.
Proof. revert k. induction vs as [|x vs IH]; intros [|k]; cbn; auto. Qed.

Lemma inv_init l : inv l 0 0 (it_init l).
Proof.
  unfold inv, it_init. split; [lia|]. split; [reflexivity|]. split.
  - intros i. unfold empty_at. rewrite !nth_error_map, Nat.sub_0_r. split; [reflexivity|]. intros H. left.
    assert (E: nth_error l i = None) by (apply nth_error_None; lia). rewrite E. reflexivity.
  - rewrite Nat.sub_0_r. destruct (Nat.ltb_spec 0 (length l)); [reflexivity|]. destruct (Nat.eqb_spec (length l) 0); [reflexivity|lia].
Qed.

Lemma empty_set_none vs k i : empty_at vs i -> empty_at (set_none k vs) i.
Proof. unfold empty_at. rewrite nth_set_none. destruct ((i =? k) && (i <? length vs)); [right; reflexivity|tauto]. Qed.

Theorem iter_is_deque : forall calls l f b s, inv l f b s -> it_run calls s = dq_run l calls f b.
Proof.
  induction calls as [|c calls IH]; intros l f b [[vs pos] rp] (Hfb & -> & Hv & Hrp); [reflexivity|].
  cbn [it_run dq_run]. destruct (Nat.ltb_spec (f + b) (length l)) as [Hlt|Hge].
  - (* an element is left *) destruct c.
    + unfold it_next. rewrite (proj1 (Hv f)) by lia.
      destruct (nth_error l f) as [v|] eqn:Ef; [|apply nth_error_None in Ef; lia]. cbn [option_map]. f_equal.
      apply IH. split; [lia|]. split; [reflexivity|]. split; [|exact Hrp].
      intros i. split.
      * intros Hi. rewrite nth_set_none. destruct (Nat.eqb_spec i f); [lia|]. cbn [andb]. apply (proj1 (Hv i)). lia.
      * intros Hi. destruct (Nat.eq_dec i f) as [->|Hne].
        -- right. rewrite nth_set_none, Nat.eqb_refl. cbn [andb].
           assert (Hl: f < length vs) by (apply nth_error_Some; rewrite (proj1 (Hv f)) by lia; rewrite Ef; discriminate).
           rewrite (proj2 (Nat.ltb_lt f (length vs)) Hl). reflexivity.
        -- apply empty_set_none. apply (proj2 (Hv i)). lia.
    + unfold it_next_back. rewrite Hrp. assert (G0: (b <? length l) || (length l =? 0) = true) by (rewrite orb_true_iff, Nat.ltb_lt; lia). rewrite G0.
      set (k := length l - 1 - b). rewrite (proj1 (Hv k)) by (subst k; lia).
      destruct (nth_error l k) as [v|] eqn:Ek; [|apply nth_error_None in Ek; subst k; lia]. cbn [option_map]. f_equal.
      apply IH. split; [lia|]. split; [reflexivity|]. split.
      * intros i. split.
        -- intros Hi. rewrite nth_set_none. destruct (Nat.eqb_spec i k); [subst k; lia|]. cbn [andb]. apply (proj1 (Hv i)). lia.
        -- intros Hi. destruct (Nat.eq_dec i k) as [->|Hne].
           ++ right. rewrite nth_set_none, Nat.eqb_refl. cbn [andb].
              assert (Hl: k < length vs) by (apply nth_error_Some; rewrite (proj1 (Hv k)) by (subst k; lia); rewrite Ek; discriminate).
              rewrite (proj2 (Nat.ltb_lt k (length vs)) Hl). reflexivity.
           ++ apply empty_set_none. apply (proj2 (Hv i)). subst k. lia.
      * destruct (Nat.ltb_spec (S b) (length l)) as [H1|H1]; cbn [orb].
        -- destruct k as [|k'] eqn:Hk; [subst k; lia|]. f_equal. subst k. lia.
        -- destruct (Nat.eqb_spec (length l) 0); [lia|]. assert (k = 0) by (subst k; lia). rewrite H. reflexivity.
  - (* exhausted: both ends answer None and the state does not move *)
    assert (Nn: it_next (vs, f, rp) = (None, (vs, f, rp))).
    { unfold it_next. destruct (proj2 (Hv f) ltac:(lia)) as [E|E]; rewrite E; reflexivity. }
    assert (Nb: it_next_back (vs, f, rp) = (None, (vs, f, rp))).
    { unfold it_next_back. rewrite Hrp. destruct ((b <? length l) || (length l =? 0)) eqn:G0; [|reflexivity].
      destruct (proj2 (Hv (length l - 1 - b))) as [E|E]; [|rewrite E; reflexivity|rewrite E; reflexivity].
      apply orb_true_iff in G0. destruct G0 as [G0|G0]; [apply Nat.ltb_lt in G0; lia|apply Nat.eqb_eq in G0; lia]. }
    destruct c; [rewrite Nn|rewrite Nb]; f_equal; apply IH; repeat split; try assumption; try lia; apply Hv.
Qed.

Corollary owning_iteration (l: list T) calls : it_run calls (it_init l) = dq_run l calls 0 0.
Proof. apply iter_is_deque. apply inv_init. Qed.
(* in particular: forward-only iteration yields l then None; backward-only yields rev l then None *)
End IT.
Print Assumptions owning_iteration.
