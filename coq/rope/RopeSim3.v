From Coq Require Import List Arith Lia Bool Permutation.
Import ListNotations.
Require Import S.ListOps S.Slots S.SlotsBasics S.SlotsOps S.SlotsInsert S.SlotsSort S.SlotsDrain S.SlotsExtend S.SlotsSwap.
Require Import S.RopeAbs S.RopeAbsProofs S.RopePhys S.RopeSim1 S.RopeSim2.

Section SIM3.
Context {T: Type}.
Variables (MAX BASE UNDER FIC: nat).
Hypothesis HBM : BASE <= MAX.
Hypothesis HB1 : 1 <= BASE.
Notation chunk := (@am T).
Notation rope := (list (@am T)).
Notation arope := (list (list T)).
Notation RopeRep := (@RopeSim1.RopeRep T MAX).

Theorem insert_sim (r: rope) (ls: arope) index v ls' : RopeRep r ls ->
  a_insert MAX BASE ls index v = Some ls' ->
  exists r', rope_insert MAX BASE r index v = Some r' /\ RopeRep r' ls'.
Proof.
  intros R. unfold rope_insert, RopeAbs.a_insert, key_with_count, RopeAbs.a_kwc.
  rewrite (kwc_sim MAX r ls 0 index 0 R). destruct (a_kwc_from ls 0 index 0) as [k c].
  rewrite (RopeRep_length MAX r ls R).
  set (r1 := if k =? length ls then r ++ [am_new MAX] else r). set (l1 := if k =? length ls then ls ++ [[]] else ls).
  assert (R1: RopeRep r1 l1).
  { subst r1 l1. destruct (k =? length ls); [apply RopeRep_app; [exact R|constructor; [apply new_rep|constructor]]|exact R]. }
  destruct (nth_error r1 k) as [ch|] eqn:Nk.
  - destruct (RopeRep_nth MAX r1 l1 k ch R1 Nk) as (lch & Nl & Rc). rewrite Nl.
    destruct ((index - c <? MAX) && (length lch <? MAX) && (index - c <=? length lch)) eqn:G; [|discriminate].
    apply andb_true_iff in G. destruct G as [G G3]. apply andb_true_iff in G. destruct G as [G1 G2].
    apply Nat.ltb_lt in G1. apply Nat.ltb_lt in G2. apply Nat.leb_le in G3.
    destruct (insert_refines MAX ch lch (index - c) v Rc G3 G2) as (ch' & I1 & I2). rewrite I1. cbn [Slots.bind].
    rewrite (Rep_len ch' _ MAX I2).
    pose proof (RopeRep_set MAX r1 l1 k ch' _ R1 I2) as R2.
    destruct (length (insert_at (index - c) v lch) =? MAX).
    + intros H. apply (rebalance_sim MAX BASE HBM _ _ _ _ HB1 R2 H).
    + intros [= <-]. eexists. split; [reflexivity|exact R2].
  - rewrite (RopeRep_nth_none MAX r1 l1 k R1 Nk). discriminate.
Qed.

Theorem remove_sim (r: rope) (ls: arope) index ls' : RopeRep r ls ->
  a_remove BASE UNDER ls index = Some ls' ->
  exists r', rope_remove MAX BASE UNDER r index = Some r' /\ RopeRep r' ls'.
Proof.
  intros R. unfold rope_remove, RopeAbs.a_remove, key_with_count, RopeAbs.a_kwc.
  rewrite (kwc_sim MAX r ls 0 index 0 R). destruct (a_kwc_from ls 0 index 0) as [k c].
  destruct (nth_error r k) as [ch|] eqn:Nk.
  - destruct (RopeRep_nth MAX r ls k ch R Nk) as (lch & Nl & Rc). rewrite Nl.
    destruct (index - c <? length lch) eqn:G; [|discriminate]. apply Nat.ltb_lt in G.
    destruct (nth_error lch (index - c)) as [x|] eqn:Nx; [|apply nth_error_None in Nx; lia].
    destruct (remove_refines MAX ch lch (index - c) x Rc Nx) as (ch' & I1 & I2). rewrite I1. cbn [Slots.bind fst].
    rewrite (Rep_len ch' _ MAX I2).
    pose proof (RopeRep_set MAX r ls k ch' _ R I2) as R2.
    destruct (length (remove_at (index - c) lch) <=? UNDER).
    + intros H. apply (rebalance_sim MAX BASE HBM _ _ _ _ HB1 R2 H).
    + intros [= <-]. eexists. split; [reflexivity|exact R2].
  - rewrite (RopeRep_nth_none MAX r ls k R Nk). discriminate.
Qed.

Theorem set_sim (r: rope) (ls: arope) index v ls' : RopeRep r ls ->
  a_set ls index v = Some ls' ->
  exists r', rope_set r index v = Some r' /\ RopeRep r' ls'.
Proof.
  intros R. unfold rope_set, RopeAbs.a_set, key_with_count, RopeAbs.a_kwc.
  rewrite (kwc_sim MAX r ls 0 index 0 R). destruct (a_kwc_from ls 0 index 0) as [k c].
  destruct (nth_error r k) as [ch|] eqn:Nk.
  - destruct (RopeRep_nth MAX r ls k ch R Nk) as (lch & Nl & Rc). rewrite Nl.
    destruct (index - c <? length lch) eqn:G; [|discriminate]. apply Nat.ltb_lt in G.
    destruct (nth_error lch (index - c)) as [x|] eqn:Nx; [|apply nth_error_None in Nx; lia].
    destruct (set_refines MAX ch lch (index - c) x v Rc Nx) as (ch' & I1 & I2). rewrite I1. cbn [Slots.bind].
    intros [= <-]. eexists. split; [reflexivity|]. apply (RopeRep_set MAX r ls k ch' _ R I2).
  - rewrite (RopeRep_nth_none MAX r ls k R Nk). discriminate.
Qed.

Theorem index_sim (r: rope) (ls: arope) index : RopeRep r ls ->
  rope_index r index = let '(k, c) := a_kwc ls index in match nth_error ls k with Some lch => nth_error lch (index - c) | None => None end.
Proof.
  intros R. unfold rope_index, key_with_count, RopeAbs.a_kwc.
  rewrite (kwc_sim MAX r ls 0 index 0 R). destruct (a_kwc_from ls 0 index 0) as [k c].
  destruct (nth_error r k) as [ch|] eqn:Nk.
  - destruct (RopeRep_nth MAX r ls k ch R Nk) as (lch & Nl & Rc). rewrite Nl. apply (index_refines MAX ch lch _ Rc).
  - rewrite (RopeRep_nth_none MAX r ls k R Nk). reflexivity.
Qed.

Theorem to_list_sim (r: rope) (ls: arope) : RopeRep r ls -> rope_to_list r = concat ls.
Proof.
  intros R. unfold rope_to_list. induction R as [|c l r ls Rc R IH]; [reflexivity|]. cbn [flat_map concat].
  rewrite (to_list_rep MAX c l Rc). f_equal. exact IH.
Qed.
End SIM3.
Print Assumptions insert_sim.
