(* audit file for C20: statements pinned through AuditC20.expected (see tools/mkaudit.py) *)
Require Import Props.C20.
Set Printing Width 160.
Set Printing Depth 1000.
Check @unordered_diff_minimal.
Check @replace_only_if_shrinks.
Check @at_least_as_many_distinct_gives_change_list.
Check @map_diff_facts.
Print Assumptions unordered_diff_minimal.
Print Assumptions replace_only_if_shrinks.
Print Assumptions at_least_as_many_distinct_gives_change_list.
Print Assumptions map_diff_facts.
