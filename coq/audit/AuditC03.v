(* audit file for C03: statements pinned through AuditC03.expected (see tools/mkaudit.py) *)
Require Import Props.C03.
Set Printing Width 160.
Set Printing Depth 1000.
Check @untouched_field.
Check @no_entry_for_skipped.
Check @diff_one_per_field.
Check @entries_independent.
Print Assumptions untouched_field.
Print Assumptions no_entry_for_skipped.
Print Assumptions diff_one_per_field.
Print Assumptions entries_independent.
