(* audit file for C14: statements pinned through AuditC14.expected (see tools/mkaudit.py) *)
Require Import Props.C14.
Set Printing Width 160.
Set Printing Depth 1000.
Check @wire_owned_roundtrip.
Check @wire_value_roundtrip.
Check @wire_effect.
Print Assumptions wire_owned_roundtrip.
Print Assumptions wire_value_roundtrip.
Print Assumptions wire_effect.
