(* audit file for C12: statements pinned through AuditC12.expected (see tools/mkaudit.py) *)
Require Import Props.C12.
Set Printing Width 160.
Set Printing Depth 1000.
Check @map_flat_roundtrip.
Check @map_diff_absent_iff_equal.
Print Assumptions map_flat_roundtrip.
Print Assumptions map_diff_absent_iff_equal.
