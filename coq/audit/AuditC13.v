(* audit file for C13: statements pinned through AuditC13.expected (see tools/mkaudit.py) *)
Require Import Props.C13.
Set Printing Width 160.
Set Printing Depth 1000.
Check @mr_follow.
Check @mr_diff_modify_spec.
Check @mr_apply_closed_form.
Check @rec_map_field_roundtrip.
Print Assumptions mr_follow.
Print Assumptions mr_diff_modify_spec.
Print Assumptions mr_apply_closed_form.
Print Assumptions rec_map_field_roundtrip.
