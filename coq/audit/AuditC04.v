(* audit file for C04: statements pinned through AuditC04.expected (see tools/mkaudit.py) *)
Require Import Props.C04.
Set Printing Width 160.
Set Printing Depth 1000.
Check @change_detection_exact.
Check @enum_diff.
Check @diff_self_empty.
Print Assumptions change_detection_exact.
Print Assumptions enum_diff.
Print Assumptions diff_self_empty.
