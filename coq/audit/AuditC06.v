(* audit file for C06: statements pinned through AuditC06.expected (see tools/mkaudit.py) *)
Require Import Props.C06.
Set Printing Width 160.
Set Printing Depth 1000.
Check @apply_variants_agree.
Print Assumptions apply_variants_agree.
