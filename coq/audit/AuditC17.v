(* audit file for C17: statements pinned through AuditC17.expected (see tools/mkaudit.py) *)
Require Import Props.C17.
Set Printing Width 160.
Set Printing Depth 1000.
Check @parse_complete.
Check @option_is_recognised.
Check @print_parse_roundtrip.
Check @struct_parse_complete.
Check @enum_parse_complete.
Check @interpretation_stable.
Check @attribute_readings.
Check @parsed_field_flags.
Check @used_lifetimes_exact.
Check @array_lens_exact.
Check @param_used_exact.
Check @struct_impl_headers_good.
Check @enum_impl_header_good.
Check @diff_enum_params_exact.
Check @mentioned_params_declared.
Check @diff_enum_uses_consistent.
Check @diff_enum_variants_aligned.
Check @variant_names_distinct.
Check @plain_payload.
Check @struct_expansion_end_to_end.
Check @declared_type_obeys_C01.
Check @alias_names_injective.
Check @shaped_declarations_expand.
Print Assumptions parse_complete.
Print Assumptions option_is_recognised.
Print Assumptions print_parse_roundtrip.
Print Assumptions struct_parse_complete.
Print Assumptions enum_parse_complete.
Print Assumptions interpretation_stable.
Print Assumptions attribute_readings.
Print Assumptions parsed_field_flags.
Print Assumptions used_lifetimes_exact.
Print Assumptions array_lens_exact.
Print Assumptions param_used_exact.
Print Assumptions struct_impl_headers_good.
Print Assumptions enum_impl_header_good.
Print Assumptions diff_enum_params_exact.
Print Assumptions mentioned_params_declared.
Print Assumptions diff_enum_uses_consistent.
Print Assumptions diff_enum_variants_aligned.
Print Assumptions variant_names_distinct.
Print Assumptions plain_payload.
Print Assumptions struct_expansion_end_to_end.
Print Assumptions declared_type_obeys_C01.
Print Assumptions alias_names_injective.
Print Assumptions shaped_declarations_expand.
