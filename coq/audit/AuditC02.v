(* audit file for C02: statements pinned through AuditC02.expected (see tools/mkaudit.py) *)
Require Import Props.C02.
Set Printing Width 160.
Set Printing Depth 1000.
Check @apply_diff_equiv.
Check @replication_tracks.
Print Assumptions apply_diff_equiv.
Print Assumptions replication_tracks.
