(* audit file for C07: the statements are pinned here; `Check` fails if a theorem was weakened. *)
From Coq Require Import List.
Require Import SD.ListOps SD.Ordered SD.OrderedLev Gen.ConstsOrdered Props.C07.
Check (@ordered_roundtrip_levenshtein : forall (T: Type) (eqb: T -> T -> bool) (d: T) (tgt src: list T),
  exists r, apply_opt src (Ordered.levenshtein eqb DELETE_COST REPLACE_COST INSERT_COST tgt src d) = Some r /\ Forall2 (OrderedLev.R eqb) r tgt).
Check (@ordered_roundtrip_hirschberg : forall (T: Type) (eqb: T -> T -> bool) (d: T) (tgt src: list T),
  exists r, apply_opt src (Ordered.hirschberg eqb LEVENSHTEIN_CUTOFF DELETE_COST REPLACE_COST INSERT_COST tgt src d) = Some r /\ Forall2 (OrderedLev.R eqb) r tgt).
Check (@ordered_none_iff_equal_hirschberg : forall (T: Type) (eqb: T -> T -> bool) (d: T) (tgt src: list T),
  Forall (fun t => eqb t t = true) tgt ->
  (Ordered.hirschberg eqb LEVENSHTEIN_CUTOFF DELETE_COST REPLACE_COST INSERT_COST tgt src d = None <-> Forall2 (fun t s => eqb t s = true) tgt src)).
Check (@ordered_none_iff_equal_levenshtein : forall (T: Type) (eqb: T -> T -> bool) (d: T) (tgt src: list T),
  Forall (fun t => eqb t t = true) tgt ->
  (Ordered.levenshtein eqb DELETE_COST REPLACE_COST INSERT_COST tgt src d = None <-> Forall2 (fun t s => eqb t s = true) tgt src)).
Print Assumptions ordered_roundtrip_levenshtein.
Print Assumptions ordered_roundtrip_hirschberg.
Print Assumptions ordered_none_iff_equal_hirschberg.
Print Assumptions ordered_none_iff_equal_levenshtein.
