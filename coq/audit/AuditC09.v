From Coq Require Import List Arith.
Require Import S.Slots S.RopePhys S.RopeSim4 Inst.RopeInst Props.C09.
Check (@rope_is_growable_array : forall (T: Type) (b: @build T) (ops: list (@rop T)),
  in_range_hist (init_list b) ops ->
  exists r0 r, x_build b = Some r0 /\ x_run r0 ops = Some r
    /\ x_len r = length (vec_run (init_list b) ops)
    /\ (forall i, x_index r i = nth_error (vec_run (init_list b) ops) i)
    /\ x_iter r = Some (vec_run (init_list b) ops)
    /\ x_to_list r = vec_run (init_list b) ops).
(* the specification side is the plain list semantics, spelled out: *)
Check (eq_refl : @vec_run = fun T l ops => fold_left (@RopeSim4.list_step T) (map to_lop ops) l).
Check (eq_refl : @RopeSim4.list_step = fun T l o => match o with
  | LInsert i v => ListOps.insert_at i v l | LRemove i => ListOps.remove_at i l
  | LDrain lo hi => firstn lo l ++ skipn (S hi) l | LSet i v => ListOps.update i v l
  | LSwap a b => SlotsSwap.swap_list (Nat.min a b) (Nat.max a b) l end).
Check (sc_new_has_no_chunk : ROPE_NEW_CHUNKS = 0).
Check (sc_max_u8 : MAX_SLOT_SIZE <= 255).
Print Assumptions rope_is_growable_array.
