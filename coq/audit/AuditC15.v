(* audit file for C15: statements pinned through AuditC15.expected (see tools/mkaudit.py) *)
Require Import Props.C15.
Set Printing Width 160.
Set Printing Depth 1000.
Check @setter_stores_and_reports.
Check @setters_replay.
Print Assumptions setter_stores_and_reports.
Print Assumptions setters_replay.
