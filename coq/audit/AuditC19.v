(* audit file for C19: statements pinned through AuditC19.expected (see tools/mkaudit.py) *)
Require Import Props.C19.
Set Printing Width 160.
Set Printing Depth 1000.
Check @unordered_apply_closed_form.
Check @unordered_apply_replace.
Check @map_apply_total.
Check @map_apply_replace.
Print Assumptions unordered_apply_closed_form.
Print Assumptions unordered_apply_replace.
Print Assumptions map_apply_total.
Print Assumptions map_apply_replace.
