From Coq Require Import List Arith.
Require Import S.ListOps S.Slots S.SlotsBasics S.SlotsDrain S.SlotsSwap S.SlotsIter Inst.RopeInst Props.C10.
Check (@chunk_step_refines : forall (T: Type) N (m: @am T) (l: list T) (o: @sop T), Rep N m l -> seq_ok N l o ->
  exists m', s_step N m o = Some m' /\ Rep N m' (seq_step l o) /\
    match o with
    | SRem p => option_map snd (s_remove m p) = nth_error l p
    | SDrain lo hi => snd (s_drain m lo hi) = firstn (hi_of hi (length l) - lo) (skipn lo l)
    | _ => True
    end).
Check (@chunk_reads : forall (T: Type) N (m: @am T) (l: list T), Rep N m l ->
  cnt m = length l /\ (forall i, s_index m i = nth_error l i) /\ s_to_list m = l
  /\ (forall calls, s_it_run N m calls = dq_run l calls 0 0)).
Check (@chunk_back_to_front : forall (T: Type) N (m: @am T) (l: list T), Rep N m l ->
  s_it_run N m (repeat false (length l)) = map Some (rev l)).
Check (@chunk_refines_bounded_seq : forall (T: Type) N (ops: list (@sop T)) (l0: list T), length l0 <= N -> seq_hist_ok N l0 ops ->
  exists m0 m, s_from N l0 = Some m0 /\ s_run N m0 ops = Some m /\ Rep N m (fold_left seq_step ops l0)).
Check (eq_refl : @seq_step = fun T l o => match o with
  | SIns p v => insert_at p v l | SRem p => remove_at p l | SSwap a b => swap_list a b l
  | SDrain lo hi => firstn lo l ++ skipn (hi_of hi (length l)) l | SExt vs => l ++ vs | SSet i v => update i v l end).
Check (sc_rev_pos_moves_down : REV_POS_DOWN = true).
Print Assumptions chunk_step_refines.
Print Assumptions chunk_reads.
Print Assumptions chunk_back_to_front.
Print Assumptions chunk_refines_bounded_seq.
