(* audit file for C16: statements pinned through AuditC16.expected (see tools/mkaudit.py) *)
Require Import Props.C16.
Set Printing Width 160.
Set Printing Depth 1000.
Check @feature_invariance.
Print Assumptions feature_invariance.
