(* audit file for C16: statements pinned through AuditC16.expected (see tools/mkaudit.py) *)
Require Import Props.C16.
Set Printing Width 160.
Set Printing Depth 1000.
Check @feature_invariance.
Check @debug_asserts_never_fire.
Print Assumptions feature_invariance.
Print Assumptions debug_asserts_never_fire.
