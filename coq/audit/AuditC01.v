(* audit file for C01: statements pinned through AuditC01.expected (see tools/mkaudit.py) *)
Require Import Props.C01.
Set Printing Width 160.
Set Printing Depth 1000.
Check @derive_roundtrip.
Check @derive_roundtrip_executed.
Print Assumptions derive_roundtrip.
Print Assumptions derive_roundtrip_executed.
