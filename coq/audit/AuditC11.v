(* audit file for C11: statements pinned through AuditC11.expected (see tools/mkaudit.py) *)
Require Import Props.C11.
Set Printing Width 160.
Set Printing Depth 1000.
Check @unordered_array_roundtrip.
Check @unordered_diff_absent_iff_equal.
Print Assumptions unordered_array_roundtrip.
Print Assumptions unordered_diff_absent_iff_equal.
