(* audit file for C05: statements pinned through AuditC05.expected (see tools/mkaudit.py) *)
Require Import Props.C05.
Set Printing Width 160.
Set Printing Depth 1000.
Check @diff_ref_same.
Check @diff_ref_same_effect.
Print Assumptions diff_ref_same.
Print Assumptions diff_ref_same_effect.
