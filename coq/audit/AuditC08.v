(* audit file for C08: statements pinned through AuditC08.expected (see tools/mkaudit.py) *)
Require Import Props.C08.
Set Printing Width 160.
Set Printing Depth 1000.
Check @nanoserde_script_roundtrip.
Check @bincode_script_roundtrip.
Check @nanoserde_reencode.
Check @bincode_reencode.
Check @script_exec_list_semantics.
Check @received_script_executes.
Print Assumptions nanoserde_script_roundtrip.
Print Assumptions bincode_script_roundtrip.
Print Assumptions nanoserde_reencode.
Print Assumptions bincode_reencode.
Print Assumptions script_exec_list_semantics.
Print Assumptions received_script_executes.
