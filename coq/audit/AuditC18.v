(* audit file for C18: statements pinned through AuditC18.expected (see tools/mkaudit.py) *)
Require Import Props.C18.
Set Printing Width 160.
Set Printing Depth 1000.
Check @hirschberg_alloc_linear.
Check @hirschberg_alloc_constant.
Print Assumptions hirschberg_alloc_linear.
Print Assumptions hirschberg_alloc_constant.
