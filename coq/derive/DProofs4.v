From Coq Require Import List Arith ZArith Lia Bool Permutation.
Import ListNotations.
Require Import R.AssocList R.MapRec R.MRProofs1 R.MRProofs2 R.MRProofs3 R.SortedMap R.DModel3.

Lemma zlist_eqb_eq a b : zlist_eqb a b = true <-> a = b.
Proof.
  revert b. induction a as [|x a IH]; intros [|y b]; cbn; try (split; [discriminate|discriminate]); [tauto|].
  rewrite andb_true_iff, Z.eqb_eq, IH. split; [intros [-> ->]; reflexivity|intros [= -> ->]; auto].
Qed.
Lemma zzlist_eqb_eq a b : zzlist_eqb a b = true <-> a = b.
Proof.
  revert b. induction a as [|[k1 v1] a IH]; intros [|[k2 v2] b]; cbn; try (split; [discriminate|discriminate]); [tauto|].
  rewrite !andb_true_iff, !Z.eqb_eq, IH. split; [intros [[-> ->] ->]; reflexivity|intros [= -> -> ->]; auto].
Qed.

Fixpoint value_eqb_eq (a: value) {struct a} : forall b, value_eqb a b = true -> a = b.
Proof.
  destruct a as [x| |x|l|m|m|xs]; intros [y| |y|l'|m'|m'|ys] H; cbn in H; try discriminate; try reflexivity.
  - apply Z.eqb_eq in H. congruence.
  - f_equal. apply value_eqb_eq. exact H.
  - apply zlist_eqb_eq in H. congruence.
  - apply zzlist_eqb_eq in H. congruence.
  - f_equal. revert m' H. induction m as [|[k1 x] m IH]; intros [|[k2 y] m'] H; try discriminate; try reflexivity.
    apply andb_true_iff in H. destruct H as [H1 H2]. apply andb_true_iff in H1. destruct H1 as [H0 H1]. apply Z.eqb_eq in H0. subst k2.
    f_equal; [f_equal; apply value_eqb_eq; exact H1|apply IH; exact H2].
  - f_equal. revert ys H. induction xs as [|x xs IH]; intros [|y ys] H; try discriminate; try reflexivity.
    apply andb_true_iff in H. destruct H as [H1 H2]. f_equal; [apply value_eqb_eq; exact H1|apply IH; exact H2].
Qed.

Section P.
Variables (oscript udiff_t mdiff_t: Type).
Variable odiff : list Z -> list Z -> option oscript.
Variable oapply : oscript -> list Z -> list Z.
Variable udiff : list Z -> list Z -> option udiff_t.
Variable uapply : list Z -> udiff_t -> list Z.
Variable mdiff : list (Z * Z) -> list (Z * Z) -> option mdiff_t.
Variable mapply : list (Z * Z) -> mdiff_t -> list (Z * Z).
Variable iter_order : list (Z * value) -> list (Z * value).
Hypothesis iter_perm : forall m, Permutation (iter_order m) m.
(* the specs proved for the back ends (C07 with Z.eqb; C11/C19; C12) *)
Hypothesis HO1 : forall t s, odiff t s = None -> s = t.
Hypothesis HO2 : forall t s d, odiff t s = Some d -> oapply d s = t.
Hypothesis HU1 : forall p c, udiff p c = None -> Permutation p c.
Hypothesis HU2 : forall p c d base, udiff p c = Some d -> Permutation base p -> Permutation (uapply base d) c.
Hypothesis HM1 : forall p c, sortedk p -> sortedk c -> mdiff p c = None -> p = c.
Hypothesis HM2 : forall p c d, sortedk p -> sortedk c -> mdiff p c = Some d -> mapply p d = c.

Notation entry := (DModel3.entry oscript udiff_t mdiff_t).
Notation diff_s := (DModel3.diff_s oscript udiff_t mdiff_t odiff udiff mdiff iter_order).
Notation diff_fs := (DModel3.diff_fs oscript udiff_t mdiff_t odiff udiff mdiff iter_order).
Notation diff_f := (DModel3.diff_f oscript udiff_t mdiff_t odiff udiff mdiff iter_order).
Notation apply_s := (DModel3.apply_s oscript udiff_t mdiff_t oapply uapply mapply iter_order).
Notation apply_fs := (DModel3.apply_fs oscript udiff_t mdiff_t oapply uapply mapply iter_order).
Notation apply_f := (DModel3.apply_f oscript udiff_t mdiff_t oapply uapply mapply iter_order).
Notation apply := (DModel3.apply oscript udiff_t mdiff_t oapply uapply mapply iter_order).
Notation field_of := (DModel3.field_of oscript udiff_t mdiff_t).
Notation get := (@al_get Z value Z.eqb).

(* ---- typing ---- *)
Fixpoint wt_s (s: shape) (v: value) {struct s} : Prop :=
  match s with
  | SEnum => True
  | SStruct fs => match v with VStruct xs => wt_fs fs xs | _ => False end
  end
with wt_fs (fs: fields) (xs: list value) {struct fs} : Prop :=
  match fs, xs with
  | FNil, [] => True
  | FCons f fs', x :: xs' => wt_f f x /\ wt_fs fs' xs'
  | _, _ => False
  end
with wt_f (f: fstrat) (x: value) {struct f} : Prop :=
  match f with
  | FPlain | FSkip => True
  | FRecurse s => wt_s s x
  | FRecurseOpt s => match x with VNone => True | VSome v => wt_s s v | _ => False end
  | FOrdered | FUnordArr => match x with VSeq _ => True | _ => False end
  | FMapFlat => match x with VFMap m => sortedk m | _ => False end        (* map values are canonical *)
  | FMapRec _ s => match x with VRMap l => sortedk l /\ Forall (fun p => wt_s s (snd p)) l | _ => False end
  end.

(* ---- equivalence (C02) and the result relation (C01); top = skipped fields are exact ---- *)
Fixpoint Eq_s (s: shape) (a b: value) {struct s} : Prop :=
  match s with
  | SEnum => a = b
  | SStruct fs => match a, b with VStruct xs, VStruct ys => Eq_fs fs xs ys | _, _ => False end
  end
with Eq_fs (fs: fields) (xs ys: list value) {struct fs} : Prop :=
  match fs, xs, ys with
  | FNil, [], [] => True
  | FCons f fs', x :: xs', y :: ys' => Eq_f f x y /\ Eq_fs fs' xs' ys'
  | _, _, _ => False
  end
with Eq_f (f: fstrat) (x y: value) {struct f} : Prop :=
  match f with
  | FPlain | FOrdered | FMapFlat => x = y
  | FSkip => True
  | FRecurse s => Eq_s s x y
  | FRecurseOpt s => match x, y with VNone, VNone => True | VSome v1, VSome v2 => Eq_s s v1 v2 | _, _ => False end
  | FUnordArr => match x, y with VSeq l1, VSeq l2 => Permutation l1 l2 | _, _ => False end
  | FMapRec ko s =>
      match x, y with
      | VRMap lx, VRMap ly => forall k, match get k lx, get k ly with
                                        | None, None => True
                                        | Some a, Some b => if ko then True else Eq_s s a b     (* key-only maps agree on their key sets *)
                                        | _, _ => False end
      | _, _ => False
      end
  end.

(* R top s a' b r : r is an acceptable result of patching the follower value a' towards leader value b *)
Fixpoint R_s (top: bool) (s: shape) (a b r: value) {struct s} : Prop :=
  match s with
  | SEnum => r = b
  | SStruct fs => match a, b, r with VStruct xs, VStruct ys, VStruct rs => R_fs top fs xs ys rs | _, _, _ => False end
  end
with R_fs (top: bool) (fs: fields) (xs ys rs: list value) {struct fs} : Prop :=
  match fs, xs, ys, rs with
  | FNil, [], [], [] => True
  | FCons f fs', x :: xs', y :: ys', r :: rs' => R_f top f x y r /\ R_fs top fs' xs' ys' rs'
  | _, _, _, _ => False
  end
with R_f (top: bool) (f: fstrat) (x y r: value) {struct f} : Prop :=
  match f with
  | FPlain | FOrdered | FMapFlat => r = y
  | FSkip => if top then r = x else (r = x \/ r = y)
  | FRecurse s => R_s false s x y r
  | FRecurseOpt s =>
      match x, y with
      | VSome v1, VSome v2 => exists z, r = VSome z /\ R_s false s v1 v2 z
      | _, VNone => r = VNone
      | VNone, VSome v2 => r = VSome v2
      | _, _ => False
      end
  | FUnordArr => match y, r with VSeq ly, VSeq lr => Permutation lr ly | _, _ => False end
  | FMapRec ko s =>
      match x, y, r with
      | VRMap lx, VRMap ly, VRMap lr =>
          sortedk lr /\
          forall k, match get k ly with
                    | None => get k lr = None                               (* exactly current's keys *)
                    | Some vy => exists vr, get k lr = Some vr /\
                        match get k lx with
                        | None => vr = vy                                   (* new key: current's value *)
                        | Some vx => if ko then vr = vx \/ vr = vy else R_s false s vx vy vr
                        end
                    end
      | _, _, _ => False
      end
  end.

Lemma wt_get s l k v : Forall (fun p : Z * value => wt_s s (snd p)) l -> get k l = Some v -> wt_s s v.
Proof. intros F G. apply (get_in Z.eqb Zeqb_spec') in G. rewrite Forall_forall in F. apply (F (k, v) G). Qed.

Ltac wtget := match goal with F: Forall _ ?l, G: al_get Z.eqb ?k ?l = Some ?v |- wt_s _ ?v => exact (wt_get _ l k v F G) end.

(* ---- frame lemmas (C03) ---- *)
Lemma apply_fs_lt fs : forall i xs (e: entry) j, field_of e = Some j -> j < i -> apply_fs fs i xs e = xs.
Proof.
  induction fs as [|f fs IH]; intros i xs e j He Hj; cbn; [destruct xs; reflexivity|].
  destruct xs as [|x xs]; [reflexivity|]. rewrite He.
  destruct (j =? i) eqn:E; [apply Nat.eqb_eq in E; lia|]. f_equal. apply IH with (j := j); auto.
Qed.
Definition fields_ge (i: nat) (d: list entry) := Forall (fun e => exists j, field_of e = Some j /\ i <= j) d.
Definition fields_eq (i: nat) (d: list entry) := Forall (fun e => field_of e = Some i) d.

Lemma fold_apply_fs_cons f fs i x xs (d1 d2: list entry) :
  fields_eq i d1 -> fields_ge (S i) d2 ->
  fold_left (apply_fs (FCons f fs) i) (d1 ++ d2) (x :: xs) =
  fold_left (apply_f f) d1 x :: fold_left (apply_fs fs (S i)) d2 xs.
Proof.
  intros H1 H2. rewrite fold_left_app.
  assert (A: fold_left (apply_fs (FCons f fs) i) d1 (x :: xs) = fold_left (apply_f f) d1 x :: xs).
  { clear H2. revert x. induction d1 as [|e d1 IH]; intros x; [reflexivity|]. inversion H1; subst.
    cbn [fold_left DModel3.apply_fs]. rewrite H2. rewrite Nat.eqb_refl. rewrite (apply_fs_lt fs (S i) xs e i) by (auto; lia).
    apply IH. assumption. }
  rewrite A. clear A H1. generalize (fold_left (apply_f f) d1 x) as x'. revert xs.
  induction d2 as [|e d2 IH]; intros xs x'; [reflexivity|]. inversion H2; subst. destruct H1 as [j [Hj Hle]].
  cbn [fold_left DModel3.apply_fs]. rewrite Hj. destruct (j =? i) eqn:E; [apply Nat.eqb_eq in E; lia|]. apply IH. assumption.
Qed.

Lemma diff_f_fields f i x y : fields_eq i (diff_f f i x y).
Proof.
  unfold fields_eq. destruct f; cbn.
  - destruct (value_eqb x y); repeat constructor.
  - constructor.
  - destruct (value_eqb x y); repeat constructor.
  - destruct x, y; try constructor; try (repeat constructor; fail). destruct (value_eqb x y); repeat constructor.
  - destruct x, y; try constructor. destruct (odiff l0 l); repeat constructor.
  - destruct x, y; try constructor. destruct (udiff l l0); repeat constructor.
  - destruct x, y; try constructor. destruct (mdiff m m0); repeat constructor.
  - destruct x, y; try constructor. destruct (mr_diff _ _ _ _ _ _ _); repeat constructor.
Qed.
Lemma diff_fs_fields fs : forall i xs ys, fields_ge i (diff_fs fs i xs ys).
Proof.
  induction fs as [|f fs IH]; intros i xs ys; cbn; [constructor|].
  destruct xs as [|x xs]; [constructor|]. destruct ys as [|y ys]; [constructor|].
  apply Forall_app. split.
  - eapply Forall_impl; [|apply diff_f_fields]. cbn. intros e He. exists i. split; [exact He|lia].
  - eapply Forall_impl; [|apply IH]. cbn. intros e [j [Hj Hle]]. exists j. split; [exact Hj|lia].
Qed.
Lemma fold_struct fs (d: list entry) xs : fold_left (apply_s (SStruct fs)) d (VStruct xs) = VStruct (fold_left (apply_fs fs 0) d xs).
Proof. revert xs. induction d as [|e d IH]; intros xs; [reflexivity|]. cbn [fold_left DModel3.apply_s]. apply IH. Qed.

(* if the follower is equivalent to a value the leader did not change, the follower's value is an acceptable result *)
Lemma R_of_Eq :
  (forall s top a' a, wt_s s a' -> Eq_s s a' a -> R_s top s a' a a') /\
  (forall fs top xs' xs, wt_fs fs xs' -> Eq_fs fs xs' xs -> R_fs top fs xs' xs xs') /\
  (forall f top x' x, wt_f f x' -> Eq_f f x' x -> R_f top f x' x x').
Proof.
  apply shape_fields_fstrat_ind; cbn.
  - intros fs IH top a' a W H. destruct a'; try contradiction. destruct a; try contradiction. apply IH; assumption.
  - intros top a' a _ H. exact H.
  - intros top xs' xs _ H. destruct xs'; [|contradiction]. destruct xs; [exact I|contradiction].
  - intros f IHf fs IHfs top xs' xs W H. destruct xs' as [|x' xs']; [contradiction|]. destruct xs as [|x xs]; [contradiction|]. destruct H. destruct W. split; auto.
  - intros top x' x _ H. exact H.
  - intros top x' x _ _. destruct top; auto.
  - intros s IH top x' x W H. apply IH; assumption.
  - intros s IH top x' x W H. destruct x'; try contradiction; destruct x; try contradiction; [reflexivity|]. eexists. split; [reflexivity|]. apply IH; assumption.
  - intros top x' x _ H. exact H.
  - intros top x' x _ H. destruct x'; try contradiction. destruct x; try contradiction. exact H.
  - intros top x' x _ H. exact H.
  - intros ko s IH top x' x W H. destruct x' as [| | | | |lx'|]; try contradiction. destruct x as [| | | | |lx|]; try contradiction.
    destruct W as [S' F']. split; [exact S'|]. intros k. specialize (H k).
    destruct (get k lx') as [a|] eqn:G'; destruct (get k lx) as [b|] eqn:G; try contradiction; [|reflexivity].
    exists a. split; [reflexivity|]. destruct ko; [left; reflexivity|]. apply IH; [wtget|exact H].
Qed.

(* a value of the right shape is an acceptable result of itself for a nested field *)
Lemma R_target :
  (forall s a b, wt_s s a -> wt_s s b -> R_s false s a b b) /\
  (forall fs xs ys, wt_fs fs xs -> wt_fs fs ys -> R_fs false fs xs ys ys) /\
  (forall f x y, wt_f f x -> wt_f f y -> R_f false f x y y).
Proof.
  apply shape_fields_fstrat_ind; cbn.
  - intros fs IH a b Wa Wb. destruct a; try contradiction. destruct b; try contradiction. apply IH; assumption.
  - reflexivity.
  - intros xs ys Wx Wy. destruct xs; [|contradiction]. destruct ys; [exact I|contradiction].
  - intros f IHf fs IHfs xs ys Wx Wy. destruct xs as [|x xs]; [contradiction|]. destruct ys as [|y ys]; [contradiction|]. destruct Wx, Wy. split; auto.
  - reflexivity.
  - intros; right; reflexivity.
  - intros s IH x y Wx Wy. apply IH; assumption.
  - intros s IH x y Wx Wy. destruct y; try contradiction; [destruct x; reflexivity|]. destruct x; try contradiction; [reflexivity|]. eexists. split; [reflexivity|]. apply IH; assumption.
  - reflexivity.
  - intros x y _ Wy. destruct y; try contradiction. apply Permutation_refl.
  - reflexivity.
  - intros ko s IH x y Wx Wy. destruct x as [| | | | |lx|]; try contradiction. destruct y as [| | | | |ly|]; try contradiction.
    destruct Wx as [Sx Fx]. destruct Wy as [Sy Fy]. split; [exact Sy|]. intros k. destruct (get k ly) as [vy|] eqn:Gy; [|reflexivity].
    exists vy. split; [reflexivity|]. destruct (get k lx) as [vx|] eqn:Gx; [|reflexivity]. destruct ko; [right; reflexivity|].
    apply IH; wtget.
Qed.

Lemma diff_f_maprec ko s i m1 m2 : diff_f (FMapRec ko s) i (VRMap m1) (VRMap m2) =
  match mr_diff Z.eqb value_eqb (diff_s s) iter_order ko m1 m2 with Some d => [EMapRec oscript udiff_t mdiff_t i d] | None => [] end.
Proof. reflexivity. Qed.
Lemma apply_f_maprec ko s i m d : apply_f (FMapRec ko s) (VRMap m) (EMapRec oscript udiff_t mdiff_t i d) =
  VRMap (canon (mr_apply Z.eqb (fun v dd => fold_left (apply_s s) dd v) iter_order m d)).
Proof. reflexivity. Qed.

(* ---- C02 core (and C01 as the instance a' = a): patching an equivalent follower ---- *)
Theorem follower_all :
  (forall s top a' a b, wt_s s a -> wt_s s b -> wt_s s a' -> Eq_s s a' a -> R_s top s a' b (apply s a' (diff_s s a b))) /\
  (forall fs top i xs' xs ys, wt_fs fs xs -> wt_fs fs ys -> wt_fs fs xs' -> Eq_fs fs xs' xs -> R_fs top fs xs' ys (fold_left (apply_fs fs i) (diff_fs fs i xs ys) xs')) /\
  (forall f top i x' x y, wt_f f x -> wt_f f y -> wt_f f x' -> Eq_f f x' x -> R_f top f x' y (fold_left (apply_f f) (diff_f f i x y) x')).
Proof.
  apply shape_fields_fstrat_ind.
  - (* SStruct *) intros fs IH top a' a b Ha Hb Ha' He. cbn in Ha, Hb, Ha', He.
    destruct a as [| | | | | |xs]; try contradiction. destruct b as [| | | | | |ys]; try contradiction. destruct a' as [| | | | | |xs']; try contradiction.
    unfold DModel3.apply. cbn [DModel3.diff_s]. rewrite fold_struct. cbn [R_s]. apply IH; assumption.
  - (* SEnum *) intros top a' a b _ _ _ He. cbn in He. subst a'. unfold DModel3.apply. cbn.
    destruct (value_eqb a b) eqn:E; cbn; [apply value_eqb_eq; exact E|reflexivity].
  - (* FNil *) intros top i xs' xs ys Hx Hy Hx' He. cbn in *. destruct xs; [|contradiction]. destruct ys; [|contradiction]. destruct xs'; [|contradiction]. cbn. exact I.
  - (* FCons *) intros f IHf fs IHfs top i xs' xs ys Hx Hy Hx' He. cbn in Hx, Hy, Hx', He.
    destruct xs as [|x xs]; [contradiction|]. destruct ys as [|y ys]; [contradiction|]. destruct xs' as [|x' xs']; [contradiction|].
    destruct Hx as [Hx1 Hx2]. destruct Hy as [Hy1 Hy2]. destruct Hx' as [Hx'1 Hx'2]. destruct He as [He1 He2].
    cbn [DModel3.diff_fs]. rewrite fold_apply_fs_cons by (apply diff_f_fields || apply diff_fs_fields).
    cbn [R_fs]. split; [apply IHf; assumption|apply IHfs; assumption].
  - (* FPlain *) intros top i x' x y _ _ _ He. cbn in He. subst x'. cbn. destruct (value_eqb x y) eqn:E; cbn; [apply value_eqb_eq; exact E|reflexivity].
  - (* FSkip *) intros top i x' x y _ _ _ _. cbn. destruct top; auto.
  - (* FRecurse *) intros s IH top i x' x y Hx Hy Hx' He. cbn [DModel3.diff_f]. cbn in He. destruct (value_eqb x y) eqn:E.
    + apply value_eqb_eq in E. subst y. cbn. apply (proj1 R_of_Eq); assumption.
    + cbn. apply IH; assumption.
  - (* FRecurseOpt *) intros s IH top i x' x y Hx Hy Hx' He. cbn in Hx, Hy, Hx', He. cbn [DModel3.diff_f R_f].
    destruct x as [| |v1| | | |]; try contradiction; destruct y as [| |v2| | | |]; try contradiction; destruct x' as [| |v1'| | | |]; try contradiction; cbn; try reflexivity.
    destruct (value_eqb v1 v2) eqn:E.
    + apply value_eqb_eq in E. subst v2. cbn. eexists. split; [reflexivity|]. apply (proj1 R_of_Eq); assumption.
    + cbn. eexists. split; [reflexivity|]. apply IH; assumption.
  - (* FOrdered *) intros top i x' x y Hx Hy _ He. cbn in Hx, Hy, He. subst x'. destruct x as [| | |l1| | |]; try contradiction. destruct y as [| | |l2| | |]; try contradiction.
    cbn [DModel3.diff_f R_f]. destruct (odiff l2 l1) eqn:E; cbn; [rewrite (HO2 _ _ _ E); reflexivity|rewrite (HO1 _ _ E); reflexivity].
  - (* FUnordArr *) intros top i x' x y Hx Hy _ He. cbn in Hx, Hy, He. destruct x as [| | |l1| | |]; try contradiction. destruct y as [| | |l2| | |]; try contradiction.
    destruct x' as [| | |l1'| | |]; try contradiction.
    cbn [DModel3.diff_f R_f]. destruct (udiff l1 l2) eqn:E; cbn.
    + apply (HU2 _ _ _ _ E He).
    + eapply perm_trans; [exact He|apply HU1; exact E].
  - (* FMapFlat *) intros top i x' x y Hx Hy _ He. cbn in Hx, Hy, He. subst x'. destruct x as [| | | |m1| |]; try contradiction. destruct y as [| | | |m2| |]; try contradiction.
    cbn [DModel3.diff_f R_f]. destruct (mdiff m1 m2) eqn:E; cbn; [rewrite (HM2 _ _ _ Hx Hy E); reflexivity|rewrite (HM1 _ _ Hx Hy E); reflexivity].
  - (* FMapRec *) intros ko s IH top i x' x y Hx Hy Hx' He. cbn in Hx, Hy, Hx', He.
    destruct x as [| | | | |lx|]; try contradiction. destruct y as [| | | | |ly|]; try contradiction. destruct x' as [| | | | |lx'|]; try contradiction.
    destruct Hx as [Sx Fx]. destruct Hy as [Sy Fy]. destruct Hx' as [Sx' Fx'].
    rewrite diff_f_maprec.
    pose proof (mr_follow Z.eqb value_eqb (diff_s s) (fun v dd => fold_left (apply_s s) dd v) Zeqb_spec' iter_order iter_perm ko lx ly lx'
                  (sorted_wf _ Sx) (sorted_wf _ Sy) (sorted_wf _ Sx')) as MF.
    (* an unchanged retained value: the follower's own value is acceptable *)
    assert (Keep: ko = false -> forall k vx vy vx', get k lx = Some vx -> get k ly = Some vy -> get k lx' = Some vx' -> value_eqb vx vy = true -> R_s false s vx' vy vx').
    { intros Hko k vx vy vx' G1 G2 G3 Ev. apply value_eqb_eq in Ev. subst vy. apply (proj1 R_of_Eq); [wtget|].
      specialize (He k). rewrite G3, G1, Hko in He. exact He. }
    destruct (mr_diff Z.eqb value_eqb (diff_s s) iter_order ko lx ly) as [d|].
    + destruct MF as (_ & Wr & Gr). cbn [fold_left]. rewrite apply_f_maprec. cbn [R_f]. split; [apply canon_sorted|].
      intros k. rewrite get_canon, Gr. specialize (He k).
      destruct d as [repl|cs].
      * destruct (get k ly) as [vy|] eqn:Gy; [|reflexivity]. exists vy. split; [reflexivity|].
        destruct (get k lx') as [vx'|] eqn:Gx'; [|reflexivity]. destruct ko; [right; reflexivity|].
        apply (proj1 R_target); wtget.
      * destruct (get k ly) as [vy|] eqn:Gy; destruct (get k lx) as [vx|] eqn:Gx; destruct (get k lx') as [vx'|] eqn:Gx'; try contradiction; try reflexivity.
        -- (* retained *) destruct ko.
           ++ exists vx'. split; [reflexivity|]. left; reflexivity.
           ++ destruct (value_eqb vx vy) eqn:Ev.
              ** exists vx'. split; [reflexivity|]. eapply (Keep eq_refl); eassumption.
              ** cbn [option_map]. eexists. split; [reflexivity|]. apply IH; try (wtget). exact He.
        -- (* new key *) exists vy. split; reflexivity.
    + (* nothing reported: the follower stays as it is *)
      destruct MF as [S1 S2]. cbn [fold_left R_f]. split; [exact Sx'|]. intros k. specialize (He k). specialize (S1 k).
      destruct (get k ly) as [vy|] eqn:Gy; destruct (get k lx) as [vx|] eqn:Gx; destruct (get k lx') as [vx'|] eqn:Gx'; try contradiction; try reflexivity.
      * exists vx'. split; [reflexivity|]. destruct ko; [left; reflexivity|]. eapply (Keep eq_refl); try eassumption. eapply S2; [reflexivity|eassumption|eassumption].
      * destruct S1 as [S1 _]. specialize (S1 eq_refl). discriminate.
      * destruct S1 as [_ S1]. specialize (S1 eq_refl). discriminate.
Qed.

Lemma Eq_refl_all :
  (forall s a, wt_s s a -> Eq_s s a a) /\ (forall fs xs, wt_fs fs xs -> Eq_fs fs xs xs) /\ (forall f x, wt_f f x -> Eq_f f x x).
Proof.
  apply shape_fields_fstrat_ind; cbn.
  - intros fs IH a H. destruct a; try contradiction. apply IH. exact H.
  - reflexivity.
  - intros xs H. destruct xs; [exact I|contradiction].
  - intros f IHf fs IHfs xs H. destruct xs as [|x xs]; [contradiction|]. destruct H. split; auto.
  - reflexivity.
  - intros; exact I.
  - intros s IH x H. apply IH. exact H.
  - intros s IH x H. destruct x; try contradiction; [exact I|apply IH; exact H].
  - reflexivity.
  - intros x H. destruct x; try contradiction. apply Permutation_refl.
  - reflexivity.
  - intros ko s IH x H. destruct x as [| | | | |lx|]; try contradiction. destruct H as [Sx Fx]. intros k.
    destruct (get k lx) as [v|] eqn:G; [|exact I]. destruct ko; [exact I|]. apply IH. wtget.
Qed.

(* every acceptable result is equivalent to the leader's new value *)
Lemma R_implies_Eq :
  (forall s top a b r, wt_s s b -> R_s top s a b r -> Eq_s s r b) /\
  (forall fs top xs ys rs, wt_fs fs ys -> R_fs top fs xs ys rs -> Eq_fs fs rs ys) /\
  (forall f top x y r, wt_f f y -> R_f top f x y r -> Eq_f f r y).
Proof.
  apply shape_fields_fstrat_ind; cbn.
  - intros fs IH top a b r W H. destruct a; try contradiction. destruct b; try contradiction. destruct r; try contradiction. eapply IH; eassumption.
  - intros top a b r _ H. exact H.
  - intros top xs ys rs _ H. destruct xs; [|contradiction]. destruct ys; [|contradiction]. destruct rs; [exact I|contradiction].
  - intros f IHf fs IHfs top xs ys rs W H. destruct xs as [|x xs]; [contradiction|]. destruct ys as [|y ys]; [contradiction|]. destruct rs as [|r rs]; [contradiction|].
    destruct W. destruct H. split; [eapply IHf|eapply IHfs]; eassumption.
  - intros top x y r _ H. exact H.
  - intros top x y r _ _. exact I.
  - intros s IH top x y r W H. eapply IH; eassumption.
  - intros s IH top x y r W H. destruct y as [| |v2| | | |]; try contradiction.
    + destruct x; subst r; exact I.
    + destruct x as [| |v1| | | |]; try contradiction.
      * subst r. apply (proj1 Eq_refl_all). exact W.
      * destruct H as [z [-> Hz]]. eapply IH; eassumption.
  - intros top x y r _ H. exact H.
  - intros top x y r W H. destruct y; try contradiction. destruct r; try contradiction. exact H.
  - intros top x y r _ H. exact H.
  - intros ko s IH top x y r W H. destruct x as [| | | | |lx|]; try contradiction. destruct y as [| | | | |ly|]; try contradiction. destruct r as [| | | | |lr|]; try contradiction.
    destruct W as [Sy Fy]. destruct H as [Sr H]. intros k. specialize (H k).
    destruct (get k ly) as [vy|] eqn:Gy; [|rewrite H; exact I]. destruct H as [vr [-> H]]. destruct ko; [exact I|].
    destruct (get k lx) as [vx|]; [eapply IH; [wtget|exact H]|]. subst vr. apply (proj1 Eq_refl_all). wtget.
Qed.

(* acceptable results are values of the type again (so a follower stays a follower) *)
Lemma R_wt :
  (forall s top a b r, wt_s s a -> wt_s s b -> R_s top s a b r -> wt_s s r) /\
  (forall fs top xs ys rs, wt_fs fs xs -> wt_fs fs ys -> R_fs top fs xs ys rs -> wt_fs fs rs) /\
  (forall f top x y r, wt_f f x -> wt_f f y -> R_f top f x y r -> wt_f f r).
Proof.
  apply shape_fields_fstrat_ind; cbn.
  - intros fs IH top a b r Wa Wb H. destruct a; try contradiction. destruct b; try contradiction. destruct r; try contradiction. exact (IH top _ _ _ Wa Wb H).
  - intros; exact I.
  - intros top xs ys rs _ _ H. destruct xs; [|contradiction]. destruct ys; [|contradiction]. destruct rs; [exact I|contradiction].
  - intros f IHf fs IHfs top xs ys rs Wx Wy H. destruct xs as [|x xs]; [contradiction|]. destruct ys as [|y ys]; [contradiction|]. destruct rs as [|r rs]; [contradiction|].
    destruct Wx as [Wx1 Wx2], Wy as [Wy1 Wy2], H as [H1 H2]. split; [exact (IHf top _ _ _ Wx1 Wy1 H1)|exact (IHfs top _ _ _ Wx2 Wy2 H2)].
  - intros; exact I.
  - intros; exact I.
  - intros s IH top x y r Wx Wy H. exact (IH false _ _ _ Wx Wy H).
  - intros s IH top x y r Wx Wy H. destruct y as [| |v2| | | |]; try contradiction.
    + destruct x; subst r; exact I.
    + destruct x as [| |v1| | | |]; try contradiction.
      * subst r. exact Wy.
      * destruct H as [z [-> Hz]]. exact (IH false _ _ _ Wx Wy Hz).
  - intros top x y r _ Wy H. subst r. exact Wy.
  - intros top x y r _ Wy H. destruct y; try contradiction. destruct r; try contradiction. exact I.
  - intros top x y r _ Wy H. subst r. exact Wy.
  - intros ko s IH top x y r Wx Wy H. destruct x as [| | | | |lx|]; try contradiction. destruct y as [| | | | |ly|]; try contradiction. destruct r as [| | | | |lr|]; try contradiction.
    destruct Wx as [Sx Fx]. destruct Wy as [Sy Fy]. destruct H as [Sr H]. split; [exact Sr|]. apply Forall_forall. intros [k vr] Hin. cbn [snd].
    apply (in_get Z.eqb Zeqb_spec' _ _ _ (sorted_wf _ Sr)) in Hin. specialize (H k).
    destruct (get k ly) as [vy|] eqn:Gy; [|congruence]. destruct H as [vr' [G H]]. rewrite Hin in G. injection G as <-.
    assert (Wvy: wt_s s vy) by (wtget).
    destruct (get k lx) as [vx|] eqn:Gx; [|subst vr; exact Wvy].
    assert (Wvx: wt_s s vx) by (wtget).
    destruct ko; [destruct H; subst vr; assumption|]. exact (IH false _ _ _ Wvx Wvy H).
Qed.

(* C01: the follower is the leader's own old value *)
Theorem derive_roundtrip : forall s a b, wt_s s a -> wt_s s b -> R_s true s a b (apply s a (diff_s s a b)).
Proof. intros s a b Ha Hb. apply (proj1 follower_all); [exact Ha|exact Hb|exact Ha|apply (proj1 Eq_refl_all); exact Ha]. Qed.

(* C02: a follower that starts equivalent stays equivalent along any history of leader states *)
Fixpoint follow (s: shape) (f: value) (prev: value) (hist: list value) : list value :=
  match hist with [] => [] | nxt :: hist' => let f' := apply s f (diff_s s prev nxt) in f' :: follow s f' nxt hist' end.
Theorem replication_tracks : forall s hist prev f, wt_s s prev -> Forall (wt_s s) hist -> wt_s s f -> Eq_s s f prev ->
  Forall2 (fun f' l => Eq_s s f' l) (follow s f prev hist) hist.
Proof.
  intros s hist. induction hist as [|nxt hist IH]; intros prev f Wp Wh Wf He; cbn [follow]; [constructor|].
  inversion Wh; subst.
  assert (R1: R_s true s f nxt (apply s f (diff_s s prev nxt))) by (apply (proj1 follower_all); assumption).
  assert (E1: Eq_s s (apply s f (diff_s s prev nxt)) nxt) by (eapply (proj1 R_implies_Eq); eassumption).
  constructor; [exact E1|]. apply IH; try assumption. eapply (proj1 R_wt); [exact Wf|exact H1|exact R1].
Qed.
End P.
Print Assumptions follower_all.
Print Assumptions derive_roundtrip.
Print Assumptions replication_tracks.
