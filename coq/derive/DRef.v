(* C05: the diff_ref template family, transcribed separately from the diff templates.
   In a pure model a borrowed payload and its owned conversion are the same value, so `Into` is the identity on payloads and
   the borrowed entry type is the owned one; what remains of the two template families is their control structure, which
   is transcribed here as its own mutual fixpoint (nested calls go to diff_ref, as in the generated code). *)
From Coq Require Import List Arith ZArith Lia Bool Permutation.
Import ListNotations.
Require Import R.AssocList R.MapRec R.SortedMap R.DModel3.

Section DRef.
Variables (oscript udiff_t mdiff_t: Type).
Variable odiff : list Z -> list Z -> option oscript.
Variable udiff : list Z -> list Z -> option udiff_t.
Variable mdiff : list (Z * Z) -> list (Z * Z) -> option mdiff_t.
Variable iter_order : list (Z * value) -> list (Z * value).
Notation entry := (DModel3.entry oscript udiff_t mdiff_t).
Notation diff_s := (DModel3.diff_s oscript udiff_t mdiff_t odiff udiff mdiff iter_order).
Notation diff_fs := (DModel3.diff_fs oscript udiff_t mdiff_t odiff udiff mdiff iter_order).
Notation diff_f := (DModel3.diff_f oscript udiff_t mdiff_t odiff udiff mdiff iter_order).

Fixpoint diff_ref_s (s: shape) (a b: value) {struct s} : list entry :=
  match s with
  | SEnum => if value_eqb a b then [] else [EEnumReplace _ _ _ b]                   (* Self::DiffRef::Replace(&updated) *)
  | SStruct fs => match a, b with VStruct xs, VStruct ys => diff_ref_fs fs 0 xs ys | _, _ => [] end
  end
with diff_ref_fs (fs: fields) (i: nat) (xs ys: list value) {struct fs} : list entry :=
  match fs, xs, ys with
  | FCons f fs', x :: xs', y :: ys' => diff_ref_f f i x y ++ diff_ref_fs fs' (S i) xs' ys'
  | _, _, _ => []
  end
with diff_ref_f (f: fstrat) (i: nat) (x y: value) {struct f} : list entry :=
  match f with
  | FSkip => []
  | FPlain => if value_eqb x y then [] else [EPlain _ _ _ i y]                       (* f(&updated.f) *)
  | FRecurse s => if value_eqb x y then [] else [ERec _ _ _ i (diff_ref_s s x y)]    (* f(self.f.diff_ref(&updated.f)) *)
  | FRecurseOpt s =>
      match x, y with
      | VSome v1, VSome v2 => if value_eqb v1 v2 then [] else [ERecOpt _ _ _ i (Some (diff_ref_s s v1 v2))]
      | VSome _, VNone => [ERecOpt _ _ _ i None]
      | VNone, VSome v2 => [ERecOptFull _ _ _ i v2]
      | _, _ => []
      end
  | FOrdered => match x, y with VSeq l1, VSeq l2 => match odiff l2 l1 with Some d => [EOrdered _ _ _ i d] | None => [] end | _, _ => [] end
  | FUnordArr => match x, y with VSeq l1, VSeq l2 => match udiff l1 l2 with Some d => [EUnordArr _ _ _ i d] | None => [] end | _, _ => [] end
  | FMapFlat => match x, y with VFMap m1, VFMap m2 => match mdiff m1 m2 with Some d => [EMapFlat _ _ _ i d] | None => [] end | _, _ => [] end
  | FMapRec ko s =>
      match x, y with
      | VRMap m1, VRMap m2 => match mr_diff Z.eqb value_eqb (diff_ref_s s) iter_order ko m1 m2 with Some d => [EMapRec _ _ _ i d] | None => [] end
      | _, _ => []
      end
  end.
(* Into<Self::Diff>: the identity on this representation *)
Definition into (e: entry) : entry := e.

(* the recursive-map back end depends on the nested diff only through its values *)
Lemma loop_step_ext {K V D} keqb veqb (vd1 vd2: V -> V -> D) ko : (forall a b, vd1 a b = vd2 a b) ->
  forall st pe, @loop_step K V D keqb veqb vd1 ko st pe = loop_step keqb veqb vd2 ko st pe.
Proof. intros H [ret cur] pe. unfold loop_step. destruct (al_get keqb (fst pe) cur); [|reflexivity]. rewrite H. reflexivity. Qed.
Lemma mr_diff_ext {K V D} keqb veqb (vd1 vd2: V -> V -> D) io ko p c : (forall a b, vd1 a b = vd2 a b) ->
  @mr_diff K V D keqb veqb vd1 io ko p c = mr_diff keqb veqb vd2 io ko p c.
Proof.
  intros H. unfold mr_diff.
  assert (E: forall l st, fold_left (loop_step keqb veqb vd1 ko) l st = fold_left (loop_step keqb veqb vd2 ko) l st).
  { induction l as [|pe l IH]; intros st; [reflexivity|]. cbn [fold_left]. rewrite (loop_step_ext keqb veqb vd1 vd2 ko H). apply IH. }
  rewrite E. reflexivity.
Qed.

Theorem diff_ref_same_all :
  (forall s a b, map into (diff_ref_s s a b) = diff_s s a b) /\
  (forall fs i xs ys, map into (diff_ref_fs fs i xs ys) = diff_fs fs i xs ys) /\
  (forall f i x y, map into (diff_ref_f f i x y) = diff_f f i x y).
Proof.
  assert (Mid: forall l: list entry, map into l = l) by (intros l; unfold into; apply map_id).
  (* the two transcriptions have the same control structure, so after unfolding `into` every case closes by computation;
     the lemmas above are what the argument needs if the borrowed payload type is made distinct *)
  apply shape_fields_fstrat_ind; intros; rewrite ?Mid in *; cbn [diff_ref_s diff_ref_fs diff_ref_f DModel3.diff_s DModel3.diff_fs DModel3.diff_f]; reflexivity.
Qed.
End DRef.
