From Coq Require Import List Arith ZArith Lia Bool Permutation.
Import ListNotations.
Require Import R.AssocList R.MapRec.

(* folding a keyed step over a list whose keys are pairwise different: each key sees at most one step *)
Section Keyed.
Context {K E C: Type} (keqb: K -> K -> bool).
Hypothesis keqb_spec : forall a b, keqb a b = true <-> a = b.
Variable ckey : C -> K.
Variable step : list (K * E) -> C -> list (K * E).
Variable F : C -> option E -> option E.
Hypothesis Hstep : forall h c k, al_wf h -> al_get keqb k (step h c) = if keqb (ckey c) k then F c (al_get keqb k h) else al_get keqb k h.
Hypothesis Hwf : forall h c, al_wf h -> al_wf (step h c).

Definition find_key (k: K) (l: list C) : option C := find (fun c => keqb (ckey c) k) l.

Lemma find_key_none k l : (forall c, In c l -> ckey c <> k) -> find_key k l = None.
Proof.
  induction l as [|c l IH]; intros H; [reflexivity|]. cbn. destruct (keqb (ckey c) k) eqn:E0.
  - apply keqb_spec in E0. exfalso. apply (H c); [left; reflexivity|exact E0].
  - apply IH. intros c' Hc'. apply H. right. exact Hc'.
Qed.
Lemma find_key_unique l c : NoDup (map ckey l) -> In c l -> find_key (ckey c) l = Some c.
Proof.
  induction l as [|c0 l IH]; intros N H; [contradiction|]. cbn. inversion N; subst. destruct H as [->|H].
  - rewrite (keqb_refl keqb keqb_spec). reflexivity.
  - destruct (keqb (ckey c0) (ckey c)) eqn:E0; [|apply IH; assumption].
    apply keqb_spec in E0. exfalso. apply H2. rewrite E0. apply in_map. exact H.
Qed.
Lemma find_key_some k l c : find_key k l = Some c -> In c l /\ ckey c = k.
Proof. intros H. apply find_some in H. destruct H as [H1 H2]. apply keqb_spec in H2. auto. Qed.

Lemma fold_keyed : forall l h, al_wf h -> NoDup (map ckey l) ->
  al_wf (fold_left step l h) /\
  forall k, al_get keqb k (fold_left step l h) = match find_key k l with Some c => F c (al_get keqb k h) | None => al_get keqb k h end.
Proof.
  induction l as [|c l IH]; intros h W N; cbn [fold_left]; [split; [exact W|reflexivity]|].
  inversion N; subst. destruct (IH (step h c) (Hwf h c W) H2) as [I1 I2]. split; [exact I1|].
  intros k. rewrite I2. cbn [find_key find]. fold (find_key k l). rewrite (Hstep h c k W).
  destruct (keqb (ckey c) k) eqn:E0; [|reflexivity].
  apply keqb_spec in E0. rewrite find_key_none; [reflexivity|].
  intros c' Hc' Hk. apply H1. rewrite E0, <- Hk. apply in_map. exact Hc'.
Qed.

Lemma find_key_filter (p: C -> bool) k l : NoDup (map ckey l) ->
  find_key k (filter p l) = match find_key k l with Some c => if p c then Some c else None | None => None end.
Proof.
  induction l as [|c l IH]; intros N; [reflexivity|]. inversion N; subst. cbn [filter find_key find]. fold (find_key k l).
  destruct (keqb (ckey c) k) eqn:E0.
  - destruct (p c) eqn:P; cbn [find_key find]; [rewrite E0; reflexivity|].
    fold (find_key k (filter p l)). rewrite IH by assumption. apply keqb_spec in E0.
    rewrite find_key_none; [reflexivity|]. intros c' Hc' Hk. apply H1. rewrite E0, <- Hk. apply in_map. exact Hc'.
  - destruct (p c); cbn [find_key find]; [rewrite E0|]; apply IH; assumption.
Qed.
Lemma NoDup_map_filter (p: C -> bool) l : NoDup (map ckey l) -> NoDup (map ckey (filter p l)).
Proof.
  induction l as [|c l IH]; intros N; [constructor|]. inversion N; subst. cbn. destruct (p c); [|auto]. cbn. constructor; [|auto].
  intros H. apply H1. apply in_map_iff in H. destruct H as [c' [E0 Hc']]. apply filter_In in Hc'. rewrite <- E0. apply in_map. tauto.
Qed.
End Keyed.

Section P1.
Context {K V D: Type} (keqb: K -> K -> bool) (veqb: V -> V -> bool) (vdiff: V -> V -> D) (vapply: V -> D -> V).
Hypothesis keqb_spec : forall a b, keqb a b = true <-> a = b.
Variable iter_order : list (K * V) -> list (K * V).
Hypothesis iter_perm : forall m, Permutation (iter_order m) m.
Notation change := (mrchange K V D).
Notation get := (al_get keqb).
Notation wf := (@al_wf K V).

Definition ckey (c: change) : K := match c with MRInsert k _ | MRRemove k | MRChange k _ => k end.
Definition eff (c: change) (o: option V) : option V :=
  match c with MRInsert _ v => Some v | MRRemove _ => None | MRChange _ d => option_map (fun v => vapply v d) o end.

(* patching with ANY change list whose keys are pairwise different is total and has a closed form *)
Theorem mr_apply_closed_form : forall base cs, wf base -> NoDup (map ckey cs) ->
  wf (mr_apply keqb vapply iter_order base (MRModify cs)) /\
  forall k, get k (mr_apply keqb vapply iter_order base (MRModify cs)) =
            match find_key keqb ckey k cs with Some c => eff c (get k base) | None => get k base end.
Proof.
  intros base cs Wb N. cbn [mr_apply].
  set (ins := filter (@is_ins K V D) cs). set (rest := filter (fun c => negb (is_ins c)) cs).
  set (rems := filter (@is_rem K V D) rest). set (chgs := filter (fun c => negb (is_rem c)) rest).
  destruct (collect_spec keqb keqb_spec base Wb) as (W0 & G0 & _).
  assert (Nrest: NoDup (map ckey rest)) by (apply NoDup_map_filter; exact N).
  (* removals *)
  destruct (fold_keyed keqb keqb_spec ckey (rem_step keqb) (fun c o => match c with MRRemove _ => None | _ => o end)) with (l := rems) (h := al_collect keqb base) as [W1 G1].
  { intros h c k W. destruct c as [k0 v|k0|k0 d]; cbn [rem_step ckey]; try (destruct (keqb k0 k); reflexivity). apply (get_remove keqb keqb_spec); exact W. }
  { intros h c W. destruct c; cbn [rem_step]; try exact W. apply (wf_remove keqb); exact W. }
  { exact W0. } { apply NoDup_map_filter; exact Nrest. }
  set (h1 := fold_left (rem_step keqb) rems (al_collect keqb base)) in *.
  (* in-place changes *)
  destruct (fold_keyed keqb keqb_spec ckey (chg_step keqb vapply) (fun c o => match c with MRChange _ d => option_map (fun v => vapply v d) o | _ => o end)) with (l := chgs) (h := h1) as [W2 G2].
  { intros h c k W. destruct c as [k0 v|k0|k0 d]; cbn [chg_step ckey]; try (destruct (keqb k0 k); reflexivity).
    destruct (get k0 h) as [v0|] eqn:G.
    - rewrite (get_set keqb keqb_spec). destruct (keqb k0 k) eqn:E0; [|reflexivity]. apply keqb_spec in E0. subst k. rewrite G. reflexivity.
    - destruct (keqb k0 k) eqn:E0; [|reflexivity]. apply keqb_spec in E0. subst k. rewrite G. reflexivity. }
  { intros h c W. destruct c as [k0 v|k0|k0 d]; cbn [chg_step]; try exact W. destruct (get k0 h); [apply (wf_set keqb keqb_spec)|]; exact W. }
  { exact W1. } { apply NoDup_map_filter; exact Nrest. }
  set (h2 := fold_left (chg_step keqb vapply) chgs h1) in *.
  (* insertions *)
  destruct (fold_keyed keqb keqb_spec ckey (ins_step keqb) (fun c o => match c with MRInsert _ v => Some v | _ => o end)) with (l := ins) (h := h2) as [W3 G3].
  { intros h c k W. destruct c as [k0 v|k0|k0 d]; cbn [ins_step ckey]; try (destruct (keqb k0 k); reflexivity). apply (get_set keqb keqb_spec). }
  { intros h c W. destruct c as [k0 v|k0|k0 d]; cbn [ins_step]; try exact W. apply (wf_set keqb keqb_spec); exact W. }
  { exact W2. } { apply NoDup_map_filter; exact N. }
  set (h3 := fold_left (ins_step keqb) ins h2) in *.
  split; [eapply (wf_perm); [exact W3|apply Permutation_sym, iter_perm]|].
  intros k. rewrite (get_perm keqb keqb_spec h3 (iter_order h3) k W3) by (apply Permutation_sym, iter_perm).
  rewrite G3, G2, G1, G0. subst ins chgs rems rest.
  rewrite !(find_key_filter keqb keqb_spec ckey) by (try apply NoDup_map_filter; assumption).
  destruct (find_key keqb ckey k cs) as [c|]; [|reflexivity]. destruct c; reflexivity.
Qed.
End P1.
Print Assumptions mr_apply_closed_form.
