(* Model of the generated setters: assign the field, return what the field's diff strategy reports from the old to the new value. *)
From Coq Require Import List Arith ZArith.
Import ListNotations.
Require Import R.AssocList R.MapRec R.SortedMap R.DModel3.

Fixpoint strat_at (fs: fields) (i: nat) : fstrat := match fs, i with FNil, _ => FSkip | FCons f _, 0 => f | FCons _ fs', S i' => strat_at fs' i' end.
Definition dflt := VNone.
Fixpoint set_nth (i: nat) (v: value) (xs: list value) : list value :=
  match xs, i with [], _ => [] | _ :: r, 0 => v :: r | x :: r, S i' => x :: set_nth i' v r end.

Section Setters.
Variables (oscript udiff_t mdiff_t: Type).
Variable odiff : list Z -> list Z -> option oscript.
Variable udiff : list Z -> list Z -> option udiff_t.
Variable mdiff : list (Z * Z) -> list (Z * Z) -> option mdiff_t.
Variable iter_order : list (Z * value) -> list (Z * value).
Notation entry := (DModel3.entry oscript udiff_t mdiff_t).
Notation diff_f := (DModel3.diff_f oscript udiff_t mdiff_t odiff udiff mdiff iter_order).
Definition setter (fs: fields) (xs: list value) (i: nat) (v: value) : list value * list entry :=
  (set_nth i v xs, diff_f (strat_at fs i) i (nth i xs dflt) v).
Fixpoint run (fs: fields) (ops: list (nat * value)) (xs: list value) : list value * list entry :=
  match ops with
  | [] => (xs, [])
  | (i, v) :: ops' => let '(xs1, e1) := setter fs xs i v in let '(xs2, e2) := run fs ops' xs1 in (xs2, e1 ++ e2)
  end.
End Setters.
