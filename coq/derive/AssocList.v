(* Association lists as the model of HashMap<K, E>: lookup, insert-or-overwrite, remove; facts under duplicate-free keys. *)
From Coq Require Import List Arith Lia Bool Permutation.
Import ListNotations.

Section AL.
Context {K E: Type} (keqb: K -> K -> bool).
Fixpoint al_get (k: K) (m: list (K * E)) : option E :=
  match m with [] => None | (k', e) :: m' => if keqb k' k then Some e else al_get k m' end.
Fixpoint al_remove (k: K) (m: list (K * E)) : list (K * E) :=
  match m with [] => [] | (k', e) :: m' => if keqb k' k then m' else (k', e) :: al_remove k m' end.
Fixpoint al_set (k: K) (e: E) (m: list (K * E)) : list (K * E) :=
  match m with [] => [(k, e)] | (k', e') :: m' => if keqb k' k then (k', e) :: m' else (k', e') :: al_set k e m' end.
Definition al_keys (m: list (K * E)) := map fst m.
Definition al_wf (m: list (K * E)) := NoDup (al_keys m).
(* HashMap::from_iter / repeated insert: the last value for a key wins *)
Definition al_collect (l: list (K * E)) : list (K * E) := fold_left (fun m p => al_set (fst p) (snd p) m) l [].

Hypothesis keqb_spec : forall a b, keqb a b = true <-> a = b.
Lemma keqb_refl k : keqb k k = true. Proof. apply keqb_spec. reflexivity. Qed.
Lemma keqb_dec (a b: K) : {a = b} + {a <> b}.
Proof. destruct (keqb a b) eqn:E0; [left; apply keqb_spec; exact E0|right; intros ->; rewrite keqb_refl in E0; discriminate]. Qed.

Lemma get_none m k : al_get k m = None <-> ~ In k (al_keys m).
Proof.
  induction m as [|[k' e] m IH]; cbn; [tauto|]. destruct (keqb k' k) eqn:E0.
  - apply keqb_spec in E0. subst. split; [discriminate|intros H; exfalso; apply H; auto].
  - rewrite IH. split; [intros H [H1|H1]; [subst; rewrite keqb_refl in E0; discriminate|contradiction]|tauto].
Qed.
Lemma get_some_in_keys m k e : al_get k m = Some e -> In k (al_keys m).
Proof. intros H. destruct (in_dec keqb_dec k (al_keys m)); [assumption|]. apply get_none in n. congruence. Qed.
Lemma in_keys_get m k : In k (al_keys m) -> exists e, al_get k m = Some e.
Proof. intros H. destruct (al_get k m) eqn:G; [eauto|]. apply get_none in G. contradiction. Qed.
Lemma get_in m k e : al_get k m = Some e -> In (k, e) m.
Proof.
  induction m as [|[k' e'] m IH]; cbn; [discriminate|]. destruct (keqb k' k) eqn:E0.
  - apply keqb_spec in E0. subst. intros [= ->]. auto.
  - intros H. right. apply IH. exact H.
Qed.
Lemma in_get m k e : al_wf m -> In (k, e) m -> al_get k m = Some e.
Proof.
  induction m as [|[k' e'] m IH]; intros W H; [contradiction|]. cbn. inversion W; subst. destruct H as [H|H].
  - injection H as -> ->. rewrite keqb_refl. reflexivity.
  - destruct (keqb k' k) eqn:E0; [|apply IH; auto]. apply keqb_spec in E0. subst. exfalso. apply H2. apply in_map_iff. exists (k, e). auto.
Qed.
Lemma existsb_keys k l : existsb (fun x => keqb x k) l = true <-> In k l.
Proof. rewrite existsb_exists. split; [intros [x [H E0]]; apply keqb_spec in E0; subst; auto|intros H; exists k; split; [auto|apply keqb_refl]]. Qed.
Lemma keys_set k e m : al_keys (al_set k e m) = if existsb (fun x => keqb x k) (al_keys m) then al_keys m else al_keys m ++ [k].
Proof.
  unfold al_keys. induction m as [|[k' e'] m IH]; cbn; [reflexivity|]. destruct (keqb k' k) eqn:E0; cbn; [reflexivity|].
  rewrite IH. destruct (existsb (fun x => keqb x k) (map fst m)); reflexivity.
Qed.
Lemma NoDup_snoc {A} (l: list A) x : NoDup l -> ~ In x l -> NoDup (l ++ [x]).
Proof.
  induction l as [|y l IH]; intros N H; cbn; [constructor; [intros []|constructor]|].
  inversion N; subst. constructor.
  - rewrite in_app_iff. cbn. intros [H1|[H1|[]]]; [contradiction|subst; apply H; left; reflexivity].
  - apply IH; [assumption|intros H1; apply H; right; exact H1].
Qed.
Lemma wf_set k e m : al_wf m -> al_wf (al_set k e m).
Proof.
  unfold al_wf. rewrite keys_set. intros W. destruct (existsb (fun x => keqb x k) (al_keys m)) eqn:E0; [exact W|].
  apply NoDup_snoc; [exact W|]. intros H. apply existsb_keys in H. congruence.
Qed.
Lemma get_set k e m k' : al_get k' (al_set k e m) = if keqb k k' then Some e else al_get k' m.
Proof.
  induction m as [|[k0 e0] m IH]; cbn.
  - destruct (keqb k k'); reflexivity.
  - destruct (keqb k0 k) eqn:E0; cbn.
    + apply keqb_spec in E0. subst k0. destruct (keqb k k'); reflexivity.
    + destruct (keqb k0 k') eqn:E2; [|exact IH]. apply keqb_spec in E2. subst k0.
      destruct (keqb k k') eqn:E3; [apply keqb_spec in E3; subst; rewrite keqb_refl in E0; discriminate|reflexivity].
Qed.
Lemma length_set k e m : length (al_set k e m) = match al_get k m with Some _ => length m | None => S (length m) end.
Proof. induction m as [|[k0 e0] m IH]; cbn; [reflexivity|]. destruct (keqb k0 k); [reflexivity|]. cbn. rewrite IH. destruct (al_get k m); reflexivity. Qed.
Lemma keys_remove_incl k m : incl (al_keys (al_remove k m)) (al_keys m).
Proof. unfold al_keys. induction m as [|[k0 c] m IH]; cbn; [apply incl_refl|]. destruct (keqb k0 k); cbn; [apply incl_tl, incl_refl|]. apply incl_cons; [left; reflexivity|apply incl_tl; exact IH]. Qed.
Lemma wf_remove k m : al_wf m -> al_wf (al_remove k m).
Proof.
  unfold al_wf, al_keys. induction m as [|[k0 c] m IH]; intros W; cbn; [constructor|]. inversion W; subst.
  destruct (keqb k0 k); [assumption|]. cbn. constructor; [|apply IH; assumption].
  intros H. apply H1. apply (keys_remove_incl k m). exact H.
Qed.
Lemma get_remove k m k' : al_wf m -> al_get k' (al_remove k m) = if keqb k k' then None else al_get k' m.
Proof.
  induction m as [|[k0 c] m IH]; intros W; cbn.
  - destruct (keqb k k'); reflexivity.
  - inversion W; subst. destruct (keqb k0 k) eqn:E0.
    + apply keqb_spec in E0. subst k0. destruct (keqb k k') eqn:E2; [|reflexivity].
      apply keqb_spec in E2. subst k'. apply get_none. exact H1.
    + cbn. destruct (keqb k0 k') eqn:E2.
      * apply keqb_spec in E2. subst k0. destruct (keqb k k') eqn:E3; [apply keqb_spec in E3; subst; rewrite keqb_refl in E0; discriminate|reflexivity].
      * apply IH. assumption.
Qed.
Lemma wf_perm m m' : al_wf m -> Permutation m m' -> al_wf m'.
Proof. intros W P. unfold al_wf, al_keys. eapply Permutation_NoDup; [apply Permutation_map; exact P|exact W]. Qed.
Lemma get_perm m m' k : al_wf m -> Permutation m m' -> al_get k m' = al_get k m.
Proof.
  intros W P. pose proof (wf_perm m m' W P) as W'. destruct (al_get k m) as [e|] eqn:E0.
  - apply in_get; [exact W'|]. eapply Permutation_in; [exact P|]. apply get_in. exact E0.
  - destruct (al_get k m') as [e'|] eqn:E'; [|reflexivity]. apply get_in in E'.
    apply get_none in E0. exfalso. apply E0. apply in_map_iff. exists (k, e'). split; [reflexivity|]. eapply Permutation_in; [apply Permutation_sym; exact P|exact E'].
Qed.
(* collecting a list with duplicate-free keys gives the same map *)
Lemma collect_gen : forall l m, al_wf m ->
  let m' := fold_left (fun m p => al_set (fst p) (snd p) m) l m in
  al_wf m' /\ (forall k, al_get k m' = match al_get k (rev l) with Some v => Some v | None => al_get k m end).
Proof.
  induction l as [|[k v] l IH]; intros m W; cbn [fold_left]; [split; [exact W|reflexivity]|].
  destruct (IH (al_set k v m) (wf_set k v m W)) as [I1 I2]. split; [exact I1|].
  intros k'. rewrite I2. cbn [rev fst snd].
  assert (A: forall a b, al_get k' (a ++ b) = match al_get k' a with Some x => Some x | None => al_get k' b end).
  { induction a as [|[k0 e0] a IHa]; intros b; cbn; [reflexivity|]. destruct (keqb k0 k'); [reflexivity|apply IHa]. }
  rewrite A. destruct (al_get k' (rev l)); [reflexivity|]. cbn. rewrite get_set. destruct (keqb k k'); reflexivity.
Qed.
Lemma get_rev m k : al_wf m -> al_get k (rev m) = al_get k m.
Proof. intros W. apply get_perm; [exact W|apply Permutation_rev]. Qed.
Lemma collect_spec l : al_wf l -> al_wf (al_collect l) /\ (forall k, al_get k (al_collect l) = al_get k l) /\ length (al_collect l) = length l.
Proof.
  intros W. destruct (collect_gen l [] (NoDup_nil _)) as [A B]. fold (al_collect l) in A, B. split; [exact A|]. split.
  - intros k. rewrite B, (get_rev l k W). destruct (al_get k l); reflexivity.
  - rewrite <- (map_length fst (al_collect l)), <- (map_length fst l). apply Nat.le_antisymm; apply NoDup_incl_length; try assumption.
    + intros k Hk. apply in_keys_get in Hk. destruct Hk as [e He]. rewrite B, (get_rev l k W) in He. destruct (al_get k l) eqn:G; [eapply get_some_in_keys; eassumption|discriminate].
    + intros k Hk. apply in_keys_get in Hk. destruct Hk as [e He]. apply (get_some_in_keys _ _ e). rewrite B, (get_rev l k W), He. reflexivity.
Qed.
End AL.
