(* C03: entries are independent per field; skipped fields are never touched *)
From Coq Require Import List Arith ZArith Lia Bool Permutation.
Import ListNotations.
Require Import R.AssocList R.MapRec R.SortedMap R.DModel3 R.DProofs4.
Require Import R.DSetters.

Section P3.
Variables (oscript udiff_t mdiff_t: Type).
Variable odiff : list Z -> list Z -> option oscript.
Variable oapply : oscript -> list Z -> list Z.
Variable udiff : list Z -> list Z -> option udiff_t.
Variable uapply : list Z -> udiff_t -> list Z.
Variable mdiff : list (Z * Z) -> list (Z * Z) -> option mdiff_t.
Variable mapply : list (Z * Z) -> mdiff_t -> list (Z * Z).
Variable iter_order : list (Z * value) -> list (Z * value).
Notation entry := (DModel3.entry oscript udiff_t mdiff_t).
Notation diff_fs := (DModel3.diff_fs oscript udiff_t mdiff_t odiff udiff mdiff iter_order).
Notation diff_f := (DModel3.diff_f oscript udiff_t mdiff_t odiff udiff mdiff iter_order).
Notation apply_fs := (DModel3.apply_fs oscript udiff_t mdiff_t oapply uapply mapply iter_order).
Notation apply_f := (DModel3.apply_f oscript udiff_t mdiff_t oapply uapply mapply iter_order).
Notation field_of := (DModel3.field_of oscript udiff_t mdiff_t).

Definition has_field (j: nat) (e: entry) : bool := match field_of e with Some k => k =? j | None => false end.
Notation dflt := DSetters.dflt.

(* one apply_single on a struct changes position i only if the entry names field base+i, and then by apply_f of that field's strategy *)
Lemma apply_fs_nth fs : forall base xs (e: entry) i, i < length xs -> length xs <= (fix len (fs: fields) := match fs with FNil => 0 | FCons _ r => S (len r) end) fs ->
  nth i (apply_fs fs base xs e) dflt = if has_field (base + i) e then apply_f (strat_at fs i) (nth i xs dflt) e else nth i xs dflt.
Proof.
  induction fs as [|f fs IH]; intros base xs e i Hi Hl; [cbn in Hl; lia|].
  destruct xs as [|x xs]; [cbn in Hi; lia|]. cbn [DModel3.apply_fs]. destruct i as [|i].
  - cbn [nth strat_at]. rewrite Nat.add_0_r. unfold has_field. destruct (field_of e); reflexivity.
  - cbn [nth strat_at]. rewrite IH by (cbn in *; lia). replace (S base + i) with (base + S i) by lia. reflexivity.
Qed.
Lemma apply_fs_length fs : forall base xs (e: entry), length (apply_fs fs base xs e) = length xs.
Proof. induction fs as [|f fs IH]; intros base xs e; cbn; [destruct xs; reflexivity|]. destruct xs; cbn; [reflexivity|]. f_equal. apply IH. Qed.

Definition flen := (fix len (fs: fields) := match fs with FNil => 0 | FCons _ r => S (len r) end).

(* position i of any sequence of apply_single calls only sees the entries for field i, in their order *)
Lemma fold_apply_nth fs (d: list entry) : forall xs i, i < length xs -> length xs <= flen fs ->
  nth i (fold_left (apply_fs fs 0) d xs) dflt = fold_left (apply_f (strat_at fs i)) (filter (has_field i) d) (nth i xs dflt).
Proof.
  induction d as [|e d IH]; intros xs i Hi Hl; [reflexivity|]. cbn [fold_left filter].
  rewrite IH by (rewrite apply_fs_length; assumption). rewrite apply_fs_nth by assumption. cbn [Nat.add].
  destruct (has_field i e); reflexivity.
Qed.

(* C03, frame half: a field no entry mentions keeps its value, whatever entries are applied (in particular every skipped field) *)
Theorem untouched_field fs (d: list entry) xs i : i < length xs -> length xs <= flen fs ->
  (forall e, In e d -> has_field i e = false) -> nth i (fold_left (apply_fs fs 0) d xs) dflt = nth i xs dflt.
Proof.
  intros Hi Hl H. rewrite fold_apply_nth by assumption.
  assert (E: filter (has_field i) d = []).
  { induction d as [|e d IH]; [reflexivity|]. cbn. rewrite (H e (or_introl eq_refl)). apply IH. intros e' He'. apply H. right. exact He'. }
  rewrite E. reflexivity.
Qed.

(* C03, independence half: applying any sub-multiset S of a diff in any order gives, field by field, either the fully patched
   field (if its entry is in S) or the original one *)
Theorem entries_independent fs (d S: list entry) xs i : i < length xs -> length xs <= flen fs ->
  (forall j, length (filter (has_field j) d) <= 1) ->          (* one entry per field: true of every diff, see below *)
  (forall j, exists S', Permutation (filter (has_field j) S) S' /\ (S' = [] \/ S' = filter (has_field j) d)) ->
  nth i (fold_left (apply_fs fs 0) S xs) dflt = nth i (fold_left (apply_fs fs 0) d xs) dflt
  \/ nth i (fold_left (apply_fs fs 0) S xs) dflt = nth i xs dflt.
Proof.
  intros Hi Hl H1 H2. rewrite !fold_apply_nth by assumption.
  destruct (H2 i) as (S' & P & HS). destruct HS as [HS|HS]; subst S'.
  - right. apply Permutation_sym, Permutation_nil in P. rewrite P. reflexivity.
  - left. specialize (H1 i). destruct (filter (has_field i) d) as [|e [|e' r]] eqn:E.
    + apply Permutation_sym, Permutation_nil in P. rewrite P. reflexivity.
    + apply Permutation_sym, Permutation_length_1_inv in P. rewrite P. reflexivity.
    + cbn in H1. lia.
Qed.

Lemma filter_length_le' {A} (p: A -> bool) (l: list A) : length (filter p l) <= length l.
Proof. induction l as [|x l IH]; cbn; [lia|]. destruct (p x); cbn; lia. Qed.

(* every diff has at most one entry per field *)
Lemma diff_f_one f i x y : length (diff_f f i x y) <= 1.
Proof.
  destruct f; cbn; try lia.
  - destruct (value_eqb x y); cbn; lia.
  - destruct (value_eqb x y); cbn; lia.
  - destruct x, y; cbn; try lia. destruct (value_eqb x y); cbn; lia.
  - destruct x, y; cbn; try lia. destruct (odiff l0 l); cbn; lia.
  - destruct x, y; cbn; try lia. destruct (udiff l l0); cbn; lia.
  - destruct x, y; cbn; try lia. destruct (mdiff m m0); cbn; lia.
  - destruct x, y; cbn; try lia. destruct (mr_diff _ _ _ _ _ _ _); cbn; lia.
Qed.
Lemma filter_none_ge fs : forall i xs ys j, j < i -> filter (has_field j) (diff_fs fs i xs ys) = [].
Proof.
  intros i xs ys j Hj. pose proof (diff_fs_fields oscript udiff_t mdiff_t odiff udiff mdiff iter_order fs i xs ys) as F.
  induction (diff_fs fs i xs ys) as [|e d IH]; [reflexivity|]. inversion F; subst. destruct H1 as [k [Hk Hle]].
  cbn. unfold has_field at 1. rewrite Hk. destruct (Nat.eqb_spec k j); [lia|]. apply IH. assumption.
Qed.
Lemma diff_fs_cons f fs i x xs y ys : diff_fs (FCons f fs) i (x :: xs) (y :: ys) = diff_f f i x y ++ diff_fs fs (S i) xs ys.
Proof. reflexivity. Qed.
Theorem diff_one_per_field fs : forall i xs ys j, length (filter (has_field j) (diff_fs fs i xs ys)) <= 1.
Proof.
  induction fs as [|f fs IH]; intros i xs ys j; [cbn; lia|].
  destruct xs as [|x xs]; [cbn; lia|]. destruct ys as [|y ys]; [cbn; lia|].
  rewrite diff_fs_cons, filter_app, app_length.
  pose proof (diff_f_fields oscript udiff_t mdiff_t odiff udiff mdiff iter_order f i x y) as Fe.
  destruct (Nat.eq_dec j i) as [->|Hne].
  - rewrite (filter_none_ge fs (S i) xs ys i) by lia. pose proof (diff_f_one f i x y).
    assert (length (filter (has_field i) (diff_f f i x y)) <= length (diff_f f i x y)) by apply filter_length_le'. cbn [length]. lia.
  - assert (E: filter (has_field j) (diff_f f i x y) = []).
    { induction (diff_f f i x y) as [|e d IHd]; [reflexivity|]. inversion Fe; subst. cbn. unfold has_field at 1. rewrite H1. destruct (Nat.eqb_spec i j); [lia|]. apply IHd. assumption. }
    rewrite E. cbn. apply IH.
Qed.

(* no entry is ever produced for a skipped field *)
Theorem no_entry_for_skipped fs : forall i xs ys e, In e (diff_fs fs i xs ys) -> exists j, field_of e = Some j /\ i <= j /\ strat_at fs (j - i) <> FSkip.
Proof.
  induction fs as [|f fs IH]; intros i xs ys e H; cbn in H; [contradiction|].
  destruct xs as [|x xs]; [contradiction|]. destruct ys as [|y ys]; [contradiction|].
  apply in_app_iff in H. destruct H as [H|H].
  - pose proof (diff_f_fields oscript udiff_t mdiff_t odiff udiff mdiff iter_order f i x y) as Fe. unfold DProofs4.fields_eq in Fe. rewrite Forall_forall in Fe.
    exists i. split; [apply Fe; exact H|]. split; [lia|]. rewrite Nat.sub_diag. cbn. intros ->. cbn in H. contradiction.
  - destruct (IH (S i) xs ys e H) as (j & Hj & Hle & Hs). exists j. split; [exact Hj|]. split; [lia|].
    replace (j - i) with (S (j - S i)) by lia. cbn. exact Hs.
Qed.
End P3.
Print Assumptions entries_independent. Print Assumptions untouched_field. Print Assumptions no_entry_for_skipped.
