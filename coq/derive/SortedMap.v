(* Canonical form of map values: association lists sorted by strictly increasing Z keys (what collecting into a map type and comparing with == observes). *)
From Coq Require Import List Arith ZArith Lia Bool Permutation.
Import ListNotations.
Require Import R.AssocList.
Local Open Scope Z_scope.

Section SM.
Context {E: Type}.
Notation get := (@al_get Z E Z.eqb).
Fixpoint sortedk (l: list (Z * E)) : Prop :=
  match l with [] => True | (k, _) :: l' => (forall k', In k' (al_keys l') -> k < k') /\ sortedk l' end.
Fixpoint ins (k: Z) (e: E) (l: list (Z * E)) : list (Z * E) :=
  match l with
  | [] => [(k, e)]
  | (k0, e0) :: l' => if k <? k0 then (k, e) :: (k0, e0) :: l' else if k =? k0 then (k, e) :: l' else (k0, e0) :: ins k e l'
  end.
Definition canon (l: list (Z * E)) : list (Z * E) := fold_right (fun p acc => ins (fst p) (snd p) acc) [] l.

Lemma Zeqb_spec' : forall a b, Z.eqb a b = true <-> a = b. Proof. intros. apply Z.eqb_eq. Qed.

Lemma sorted_wf l : sortedk l -> al_wf l.
Proof.
  unfold al_wf. induction l as [|[k e] l IH]; intros S0; cbn; [constructor|]. destruct S0 as [H1 H2]. constructor; [|auto].
  intros Hin. apply H1 in Hin. lia.
Qed.
Lemma get_ins k e l k' : get k' (ins k e l) = if k =? k' then Some e else get k' l.
Proof.
  induction l as [|[k0 e0] l IH]; cbn [ins al_get]; [reflexivity|].
  destruct (Z.ltb_spec k k0); cbn [al_get]; [reflexivity|]. destruct (Z.eqb_spec k k0).
  - subst k0. cbn [al_get]. destruct (Z.eqb_spec k k'); reflexivity.
  - cbn [al_get]. destruct (Z.eqb_spec k0 k'); [|exact IH]. subst k'. destruct (Z.eqb_spec k k0); [lia|reflexivity].
Qed.
Lemma keys_ins k e l : forall x, In x (al_keys (ins k e l)) -> x = k \/ In x (al_keys l).
Proof.
  unfold al_keys. induction l as [|[k0 e0] l IH]; cbn [ins map fst]; intros x H.
  - destruct H as [<-|[]]. auto.
  - destruct (k <? k0); [destruct H as [<-|H]; auto|]. destruct (k =? k0); cbn [map fst] in *.
    + destruct H as [<-|H]; auto. right. right. exact H.
    + destruct H as [<-|H]; [right; left; reflexivity|]. apply IH in H. destruct H; [auto|right; right; assumption].
Qed.
Lemma sorted_ins k e l : sortedk l -> sortedk (ins k e l).
Proof.
  induction l as [|[k0 e0] l IH]; intros S0; cbn [ins].
  - cbn. split; [intros k' []|exact I].
  - destruct S0 as [H1 H2]. destruct (Z.ltb_spec k k0).
    + split; [|split; assumption]. intros k' [<-|Hk']; [assumption|]. apply H1 in Hk'. lia.
    + destruct (Z.eqb_spec k k0).
      * subst k0. split; assumption.
      * split; [|apply IH; exact H2]. intros k' Hk'. apply keys_ins in Hk'. destruct Hk' as [->|Hk']; [lia|apply H1; exact Hk'].
Qed.
Lemma canon_sorted l : sortedk (canon l).
Proof. induction l as [|[k e] l IH]; cbn; [exact I|]. apply sorted_ins. exact IH. Qed.
Lemma get_canon l k : get k (canon l) = get k l.
Proof. induction l as [|[k0 e0] l IH]; cbn [canon fold_right fst snd al_get]; [reflexivity|]. fold (canon l). rewrite get_ins, IH. reflexivity. Qed.

Lemma sorted_head_get k e l : sortedk ((k, e) :: l) -> get k l = None.
Proof. intros [H1 _]. apply (get_none Z.eqb Zeqb_spec'). intros Hin. apply H1 in Hin. lia. Qed.
Lemma sorted_ext : forall a b, sortedk a -> sortedk b -> (forall k, get k a = get k b) -> a = b.
Proof.
  induction a as [|[k1 e1] a IH]; intros [|[k2 e2] b] Sa Sb H.
  - reflexivity.
  - specialize (H k2). cbn in H. rewrite Z.eqb_refl in H. discriminate.
  - specialize (H k1). cbn in H. rewrite Z.eqb_refl in H. discriminate.
  - assert (Hk: k1 = k2).
    { destruct (Z.lt_trichotomy k1 k2) as [Hlt|[Heq|Hgt]]; [|exact Heq|].
      - pose proof (H k1) as H1. cbn in H1. rewrite Z.eqb_refl in H1. destruct (Z.eqb_spec k2 k1); [lia|].
        symmetry in H1. apply (get_some_in_keys Z.eqb Zeqb_spec') in H1. destruct Sb as [Hb _]. apply Hb in H1. lia.
      - pose proof (H k2) as H2. cbn in H2. rewrite Z.eqb_refl in H2. destruct (Z.eqb_spec k1 k2); [lia|].
        apply (get_some_in_keys Z.eqb Zeqb_spec') in H2. destruct Sa as [Ha _]. apply Ha in H2. lia. }
    subst k2. pose proof (H k1) as H1. cbn in H1. rewrite Z.eqb_refl in H1. injection H1 as <-.
    f_equal. apply IH; [apply Sa|apply Sb|]. intros k. destruct (Z.eqb_spec k1 k) as [<-|Hne].
    + rewrite (sorted_head_get _ _ _ Sa), (sorted_head_get _ _ _ Sb). reflexivity.
    + specialize (H k). cbn in H. destruct (Z.eqb_spec k1 k); [contradiction|exact H].
Qed.
End SM.
