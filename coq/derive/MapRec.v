(* Model of src/collections/unordered_map_like_recursive.rs, parametric in the nested diff / apply of the value type. *)
From Coq Require Import List Arith ZArith Lia Bool Permutation.
Import ListNotations.
Require Import R.AssocList.

Inductive mrchange (K V D: Type) := MRInsert (k: K) (v: V) | MRRemove (k: K) | MRChange (k: K) (d: D).
Inductive mrdiff (K V D: Type) := MRReplace (l: list (K * V)) | MRModify (cs: list (mrchange K V D)).
Arguments MRInsert {K V D}. Arguments MRRemove {K V D}. Arguments MRChange {K V D}.
Arguments MRReplace {K V D}. Arguments MRModify {K V D}.

Section MR.
Context {K V D: Type} (keqb: K -> K -> bool) (veqb: V -> V -> bool) (vdiff: V -> V -> D) (vapply: V -> D -> V).
Variable iter_order : list (K * V) -> list (K * V).         (* HashMap iteration order: some permutation *)
Notation change := (mrchange K V D).

(* one turn of `for prev_entry in previous.into_iter()` *)
Definition loop_step (key_only: bool) (st: list change * list (K * V)) (pe: K * V) : list change * list (K * V) :=
  let '(ret, cur) := st in
  match al_get keqb (fst pe) cur with
  | None => (ret ++ [MRRemove (fst pe)], cur)
  | Some cv =>
      let cur' := al_remove keqb (fst pe) cur in
      if key_only then (ret, cur')
      else if negb (veqb (snd pe) cv) then (ret ++ [MRChange (fst pe) (vdiff (snd pe) cv)], cur') else (ret, cur')
  end.

Definition mr_diff (key_only: bool) (previous current: list (K * V)) : option (mrdiff K V D) :=
  let prev := al_collect keqb previous in
  let cur := al_collect keqb current in
  if (Z.of_nat (length cur) <? Z.of_nat (length prev) - Z.of_nat (length cur))%Z then Some (MRReplace (iter_order cur))
  else
    let '(ret, cur') := fold_left (loop_step key_only) (iter_order prev) ([], cur) in
    match ret ++ map (fun p => MRInsert (fst p) (snd p)) (iter_order cur') with
    | [] => None
    | cs => Some (MRModify cs)
    end.

Definition is_ins (c: change) := match c with MRInsert _ _ => true | _ => false end.
Definition is_rem (c: change) := match c with MRRemove _ => true | _ => false end.
Definition rem_step (h: list (K * V)) (c: change) := match c with MRRemove k => al_remove keqb k h | _ => h end.
Definition chg_step (h: list (K * V)) (c: change) :=
  match c with MRChange k d => match al_get keqb k h with Some v => al_set keqb k (vapply v d) h | None => h end | _ => h end.
Definition ins_step (h: list (K * V)) (c: change) := match c with MRInsert k v => al_set keqb k v h | _ => h end.

Definition mr_apply (base: list (K * V)) (d: mrdiff K V D) : list (K * V) :=
  match d with
  | MRReplace l => l
  | MRModify cs =>
      let ins := filter is_ins cs in
      let rest := filter (fun c => negb (is_ins c)) cs in
      let rems := filter is_rem rest in
      let chgs := filter (fun c => negb (is_rem c)) rest in
      iter_order (fold_left ins_step ins (fold_left chg_step chgs (fold_left rem_step rems (al_collect keqb base))))
  end.
End MR.
