(* Derive semantics: universe of type shapes, values, entries, diff / apply. Collection back ends are section parameters with their proved specs. *)
From Coq Require Import List Arith ZArith Lia Bool Permutation.
Import ListNotations.
Require Import R.AssocList R.MapRec R.SortedMap.

Inductive mapmode := KeyOnly | KeyAndValue.
Inductive shape := SStruct (fs: fields) | SEnum
with fields := FNil | FCons (f: fstrat) (fs: fields)
with fstrat :=
  | FPlain | FSkip
  | FRecurse (s: shape) | FRecurseOpt (s: shape)
  | FOrdered | FUnordArr | FMapFlat
  | FMapRec (key_only: bool) (s: shape).

Scheme shape_mind := Induction for shape Sort Prop
with fields_mind := Induction for fields Sort Prop
with fstrat_mind := Induction for fstrat Sort Prop.
Combined Scheme shape_fields_fstrat_ind from shape_mind, fields_mind, fstrat_mind.

Inductive value :=
  | VAtom (z: Z)                       (* plain / Option / enum values: one comparable type *)
  | VNone | VSome (v: value)
  | VSeq (l: list Z)                   (* Vec-like collections of atoms *)
  | VFMap (m: list (Z * Z))            (* flat map, canonical (sorted, unique keys) *)
  | VRMap (m: list (Z * value))        (* map whose values derive Difference, canonical (sorted, unique keys) *)
  | VStruct (fs: list value).

Fixpoint zlist_eqb (a b: list Z) : bool :=
  match a, b with [], [] => true | x :: a', y :: b' => Z.eqb x y && zlist_eqb a' b' | _, _ => false end.
Fixpoint zzlist_eqb (a b: list (Z * Z)) : bool :=
  match a, b with [], [] => true | (k1, v1) :: a', (k2, v2) :: b' => Z.eqb k1 k2 && Z.eqb v1 v2 && zzlist_eqb a' b' | _, _ => false end.

Section Derive.
(* ---- collection back ends (instantiated with the models of C07 / C11 / C12) ---- *)
Variables (oscript udiff_t mdiff_t: Type).
Variable odiff : list Z -> list Z -> option oscript.        (* target, source *)
Variable oapply : oscript -> list Z -> list Z.
Variable udiff : list Z -> list Z -> option udiff_t.        (* previous, current *)
Variable uapply : list Z -> udiff_t -> list Z.
Variable mdiff : list (Z * Z) -> list (Z * Z) -> option mdiff_t.
Variable mapply : list (Z * Z) -> mdiff_t -> list (Z * Z).
Variable iter_order : list (Z * value) -> list (Z * value).   (* HashMap iteration order inside the recursive-map back end *)

(* derived PartialEq: all fields; maps compared as maps *)
Fixpoint value_eqb (a b: value) {struct a} : bool :=
  match a, b with
  | VAtom x, VAtom y => Z.eqb x y
  | VNone, VNone => true
  | VSome x, VSome y => value_eqb x y
  | VSeq x, VSeq y => zlist_eqb x y
  | VFMap x, VFMap y => zzlist_eqb x y
  | VRMap xs, VRMap ys =>
      (fix go (l1 l2: list (Z * value)) : bool :=
         match l1, l2 with [] , [] => true | (k1, x) :: l1', (k2, y) :: l2' => Z.eqb k1 k2 && value_eqb x y && go l1' l2' | _, _ => false end) xs ys
  | VStruct xs, VStruct ys =>
      (fix go (l1 l2: list value) : bool :=
         match l1, l2 with [] , [] => true | x :: l1', y :: l2' => value_eqb x y && go l1' l2' | _, _ => false end) xs ys
  | _, _ => false
  end.

Inductive entry :=
  | EPlain (i: nat) (v: value)
  | ERec (i: nat) (d: list entry)
  | ERecOpt (i: nat) (d: option (list entry))
  | ERecOptFull (i: nat) (v: value)
  | EOrdered (i: nat) (d: oscript)
  | EUnordArr (i: nat) (d: udiff_t)
  | EMapFlat (i: nat) (d: mdiff_t)
  | EMapRec (i: nat) (d: mrdiff Z value (list entry))
  | EEnumReplace (v: value).

Definition field_of (e: entry) : option nat :=
  match e with
  | EPlain i _ | ERec i _ | ERecOpt i _ | ERecOptFull i _ | EOrdered i _ | EUnordArr i _ | EMapFlat i _ | EMapRec i _ => Some i
  | EEnumReplace _ => None
  end.

(* ---- diff ---- *)
Fixpoint diff_s (s: shape) (a b: value) {struct s} : list entry :=
  match s with
  | SEnum => if value_eqb a b then [] else [EEnumReplace b]
  | SStruct fs => match a, b with VStruct xs, VStruct ys => diff_fs fs 0 xs ys | _, _ => [] end
  end
with diff_fs (fs: fields) (i: nat) (xs ys: list value) {struct fs} : list entry :=
  match fs, xs, ys with
  | FCons f fs', x :: xs', y :: ys' => diff_f f i x y ++ diff_fs fs' (S i) xs' ys'
  | _, _, _ => []
  end
with diff_f (f: fstrat) (i: nat) (x y: value) {struct f} : list entry :=
  match f with
  | FSkip => []
  | FPlain => if value_eqb x y then [] else [EPlain i y]
  | FRecurse s => if value_eqb x y then [] else [ERec i (diff_s s x y)]
  | FRecurseOpt s =>
      match x, y with
      | VSome v1, VSome v2 => if value_eqb v1 v2 then [] else [ERecOpt i (Some (diff_s s v1 v2))]
      | VSome _, VNone => [ERecOpt i None]
      | VNone, VSome v2 => [ERecOptFull i v2]
      | _, _ => []
      end
  | FOrdered => match x, y with VSeq l1, VSeq l2 => match odiff l2 l1 with Some d => [EOrdered i d] | None => [] end | _, _ => [] end
  | FUnordArr => match x, y with VSeq l1, VSeq l2 => match udiff l1 l2 with Some d => [EUnordArr i d] | None => [] end | _, _ => [] end
  | FMapFlat => match x, y with VFMap m1, VFMap m2 => match mdiff m1 m2 with Some d => [EMapFlat i d] | None => [] end | _, _ => [] end
  | FMapRec ko s =>
      match x, y with
      | VRMap m1, VRMap m2 => match mr_diff Z.eqb value_eqb (diff_s s) iter_order ko m1 m2 with Some d => [EMapRec i d] | None => [] end
      | _, _ => []
      end
  end.

(* ---- apply_single ---- *)
Fixpoint apply_s (s: shape) (x: value) (e: entry) {struct s} : value :=
  match s with
  | SEnum => match e with EEnumReplace v => v | _ => x end
  | SStruct fs => match x with VStruct xs => VStruct (apply_fs fs 0 xs e) | _ => x end
  end
with apply_fs (fs: fields) (i: nat) (xs: list value) (e: entry) {struct fs} : list value :=
  match fs, xs with
  | FCons f fs', x :: xs' => (if match field_of e with Some j => j =? i | None => false end then apply_f f x e else x) :: apply_fs fs' (S i) xs' e
  | _, _ => xs
  end
with apply_f (f: fstrat) (x: value) (e: entry) {struct f} : value :=
  match f, e with
  | FPlain, EPlain _ v => v
  | FRecurse s, ERec _ d => fold_left (apply_s s) d x
  | FRecurseOpt s, ERecOpt _ (Some d) => match x with VSome inner => VSome (fold_left (apply_s s) d inner) | o => o end
  | FRecurseOpt _, ERecOpt _ None => VNone
  | FRecurseOpt _, ERecOptFull _ v => VSome v
  | FOrdered, EOrdered _ d => match x with VSeq l => VSeq (oapply d l) | o => o end
  | FUnordArr, EUnordArr _ d => match x with VSeq l => VSeq (uapply l d) | o => o end
  | FMapFlat, EMapFlat _ d => match x with VFMap m => VFMap (mapply m d) | o => o end
  | FMapRec _ s, EMapRec _ d =>
      match x with
      | VRMap m => VRMap (canon (mr_apply Z.eqb (fun v dd => fold_left (apply_s s) dd v) iter_order m d))   (* .collect() back into the map type *)
      | o => o
      end
  | _, _ => x
  end.

Definition apply (s: shape) (x: value) (d: list entry) : value := fold_left (apply_s s) d x.
End Derive.
