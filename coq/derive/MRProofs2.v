From Coq Require Import List Arith ZArith Lia Bool Permutation.
Import ListNotations.
Require Import R.AssocList R.MapRec R.MRProofs1.

Lemma NoDup_app_intro' {A} (a b: list A) : NoDup a -> NoDup b -> (forall x, In x a -> In x b -> False) -> NoDup (a ++ b).
Proof.
  induction a as [|x a IH]; intros Na Nb D; cbn; [exact Nb|]. inversion Na; subst. constructor.
  - rewrite in_app_iff. intros [H|H]; [contradiction|]. apply (D x); [left; reflexivity|exact H].
  - apply IH; [assumption|assumption|]. intros y Hy. apply D. right. exact Hy.
Qed.

Section P2.
Context {K V D: Type} (keqb: K -> K -> bool) (veqb: V -> V -> bool) (vdiff: V -> V -> D) (vapply: V -> D -> V).
Hypothesis keqb_spec : forall a b, keqb a b = true <-> a = b.
Variable iter_order : list (K * V) -> list (K * V).
Hypothesis iter_perm : forall m, Permutation (iter_order m) m.
Notation change := (mrchange K V D).
Notation get := (al_get keqb).
Notation wf := (@al_wf K V).
Notation keys := (@al_keys K V).
Notation ckey := (@MRProofs1.ckey K V D).

(* the main loop over previous: which entries it emits and what it leaves of current *)
Lemma loop_spec ko : forall (prevl: list (K * V)) ret cur, wf prevl -> wf cur ->
  exists es cur', fold_left (loop_step keqb veqb vdiff ko) prevl (ret, cur) = (ret ++ es, cur') /\ wf cur' /\
    (forall k, get k cur' = match get k prevl with Some _ => None | None => get k cur end) /\
    (forall c, In c es <->
       match c with
       | MRRemove k => get k prevl <> None /\ get k cur = None
       | MRChange k d => ko = false /\ exists pv cv, get k prevl = Some pv /\ get k cur = Some cv /\ veqb pv cv = false /\ d = vdiff pv cv
       | MRInsert _ _ => False
       end) /\
    NoDup (map ckey es).
Proof.
  induction prevl as [|[k0 pv0] prevl IH]; intros ret cur Wp Wc.
  - exists [], cur. cbn. rewrite app_nil_r. split; [reflexivity|]. split; [exact Wc|]. split; [reflexivity|]. split; [|constructor].
    intros [k v|k|k d]; split; try contradiction; try tauto.
    intros (_ & pv & cv & H & _). discriminate.
  - inversion Wp as [|? ? Hk0 Wp']; subst.
    assert (G0: get k0 prevl = None) by (apply (get_none keqb keqb_spec); exact Hk0).
    cbn [fold_left loop_step fst snd].
    (* one generic continuation: the step emitted `new` (with key k0 if any) and left cur1 *)
    assert (Cont: forall (new: list change) cur1, wf cur1 ->
              (forall k, get k cur1 = if keqb k0 k then (match get k0 cur with Some _ => None | None => None end) else get k cur) ->
              (forall c, In c new -> ckey c = k0) -> NoDup (map ckey new) ->
              (forall c, In c new <-> match c with
                                      | MRRemove k => k = k0 /\ get k0 cur = None
                                      | MRChange k d => k = k0 /\ ko = false /\ exists cv, get k0 cur = Some cv /\ veqb pv0 cv = false /\ d = vdiff pv0 cv
                                      | MRInsert _ _ => False end) ->
              exists es cur', fold_left (loop_step keqb veqb vdiff ko) prevl (ret ++ new, cur1) = (ret ++ es, cur') /\ wf cur' /\
                (forall k, get k cur' = match get k ((k0, pv0) :: prevl) with Some _ => None | None => get k cur end) /\
                (forall c, In c es <-> match c with
                   | MRRemove k => get k ((k0, pv0) :: prevl) <> None /\ get k cur = None
                   | MRChange k d => ko = false /\ exists pv cv, get k ((k0, pv0) :: prevl) = Some pv /\ get k cur = Some cv /\ veqb pv cv = false /\ d = vdiff pv cv
                   | MRInsert _ _ => False end) /\
                NoDup (map ckey es)).
    { intros new cur1 W1 G1 Knew Nnew Inew.
      destruct (IH (ret ++ new) cur1 Wp' W1) as (es & cur' & Hf & Wc' & Gc' & Ies & Nes).
      exists (new ++ es), cur'. rewrite Hf, app_assoc. split; [reflexivity|]. split; [exact Wc'|]. split; [|split].
      - intros k. rewrite Gc', G1. cbn [al_get]. destruct (keqb k0 k) eqn:E0.
        + apply keqb_spec in E0. subst k. rewrite G0. destruct (get k0 cur); reflexivity.
        + reflexivity.
      - intros c. rewrite in_app_iff, Inew, Ies. cbn [al_get].
        destruct c as [k v|k|k d]; [tauto| |].
        + destruct (keqb k0 k) eqn:E0.
          * apply keqb_spec in E0. subst k. rewrite G0, G1, (keqb_refl keqb keqb_spec). split.
            -- intros [[_ H]|[H _]]; [split; [discriminate|exact H]|congruence].
            -- intros [_ H]. left. auto.
          * rewrite G1, E0. split; [intros [[H _]|H]; [subst; rewrite (keqb_refl keqb keqb_spec) in E0; discriminate|exact H]|intros H; right; exact H].
        + destruct (keqb k0 k) eqn:E0.
          * apply keqb_spec in E0. subst k. rewrite G0. split.
            -- intros [(_ & Hko & cv & Hc & Hv & Hd)|(_ & pv & cv & Hp & _)]; [|discriminate]. split; [exact Hko|]. exists pv0, cv. auto.
            -- intros (Hko & pv & cv & [= <-] & Hc & Hv & Hd). left. split; [reflexivity|]. split; [exact Hko|]. exists cv. auto.
          * rewrite G1, E0. split; [intros [(H & _)|H]; [subst; rewrite (keqb_refl keqb keqb_spec) in E0; discriminate|exact H]|intros H; right; exact H].
      - rewrite map_app. apply NoDup_app_intro'; [exact Nnew|exact Nes|].
        intros k Hk1 Hk2. apply in_map_iff in Hk1. destruct Hk1 as [c1 [<- Hc1]]. apply in_map_iff in Hk2. destruct Hk2 as [c2 [Hk Hc2]].
        rewrite (Knew c1 Hc1) in Hk. apply Ies in Hc2. destruct c2 as [k v|k|k d]; cbn in Hk; subst k; [contradiction| |].
        + destruct Hc2 as [H _]. congruence.
        + destruct Hc2 as (_ & pv & cv & H & _). congruence. }
    destruct (get k0 cur) as [cv|] eqn:Gc.
    + set (cur1 := al_remove keqb k0 cur).
      assert (W1: wf cur1) by (apply (wf_remove keqb); exact Wc).
      assert (G1: forall k, get k cur1 = if keqb k0 k then None else get k cur) by (intros k; apply (get_remove keqb keqb_spec); exact Wc).
      destruct ko.
      * assert (Hnil: forall c : change, In c [] <-> match c with
                                      | MRRemove k => k = k0 /\ Some cv = None
                                      | MRChange k d => k = k0 /\ true = false /\ exists cv0, Some cv = Some cv0 /\ veqb pv0 cv0 = false /\ d = vdiff pv0 cv0
                                      | MRInsert _ _ => False end).
        { intros [k v|k|k d]; cbn; split; try contradiction; try tauto. { intros [_ H]; congruence. } { intros (_ & H & _). discriminate. } }
        destruct (Cont [] cur1 W1 G1 (fun c (H: In c []) => match H with end) (NoDup_nil _) Hnil) as (es & cur' & Hf & Rest).
        rewrite app_nil_r in Hf. exists es, cur'. split; [exact Hf|exact Rest].
      * destruct (veqb pv0 cv) eqn:Ev; cbn [negb].
        -- assert (Hnil: forall c : change, In c [] <-> match c with
                                      | MRRemove k => k = k0 /\ Some cv = None
                                      | MRChange k d => k = k0 /\ false = false /\ exists cv0, Some cv = Some cv0 /\ veqb pv0 cv0 = false /\ d = vdiff pv0 cv0
                                      | MRInsert _ _ => False end).
           { intros [k v|k|k d]; cbn; split; try contradiction; try tauto. { intros [_ H]; congruence. } { intros (_ & _ & cv' & Hc' & H & _). congruence. } }
           destruct (Cont [] cur1 W1 G1 (fun c (H: In c []) => match H with end) (NoDup_nil _) Hnil) as (es & cur' & Hf & Rest).
           rewrite app_nil_r in Hf. exists es, cur'. split; [exact Hf|exact Rest].
        -- apply (Cont [MRChange k0 (vdiff pv0 cv)] cur1 W1 G1).
           ++ intros c [<-|[]]. reflexivity.
           ++ repeat constructor. intros [].
           ++ intros [k v|k|k d]; cbn; split; try tauto.
              ** intros [H|[]]. discriminate.
              ** intros [H|[]]. discriminate.
              ** intros [_ H]. discriminate.
              ** intros [[= <- <-]|[]]. split; [reflexivity|]. split; [reflexivity|]. exists cv. auto.
              ** intros (-> & _ & cv' & [= <-] & _ & ->). left. reflexivity.
    + apply (Cont [MRRemove k0] cur Wc).
      * intros k. destruct (keqb k0 k) eqn:E0; [|reflexivity]. apply keqb_spec in E0. subst k. exact Gc.
      * intros c [<-|[]]. reflexivity.
      * repeat constructor. intros [].
      * intros [k v|k|k d]; cbn; split; try tauto.
        -- intros [H|[]]. discriminate.
        -- intros [[= <-]|[]]. auto.
        -- intros [-> _]. left. reflexivity.
        -- intros [H|[]]. discriminate.
        -- intros (_ & _ & cv' & H & _). discriminate.
Qed.
End P2.
