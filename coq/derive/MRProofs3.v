From Coq Require Import List Arith ZArith Lia Bool Permutation.
Import ListNotations.
Require Import R.AssocList R.MapRec R.MRProofs1 R.MRProofs2.

Section P3.
Context {K V D: Type} (keqb: K -> K -> bool) (veqb: V -> V -> bool) (vdiff: V -> V -> D) (vapply: V -> D -> V).
Hypothesis keqb_spec : forall a b, keqb a b = true <-> a = b.
Variable iter_order : list (K * V) -> list (K * V).
Hypothesis iter_perm : forall m, Permutation (iter_order m) m.
Notation change := (mrchange K V D).
Notation get := (al_get keqb).
Notation wf := (@al_wf K V).
Notation keys := (@al_keys K V).
Notation ckey := (@MRProofs1.ckey K V D).
Notation mr_diff := (MapRec.mr_diff keqb veqb vdiff iter_order).
Notation mr_apply := (MapRec.mr_apply keqb vapply iter_order).

(* "nothing to report" in the sense of the mode *)
Definition same (ko: bool) (previous current: list (K * V)) : Prop :=
  (forall k, get k previous = None <-> get k current = None) /\
  (ko = false -> forall k pv cv, get k previous = Some pv -> get k current = Some cv -> veqb pv cv = true).

Lemma same_keys_length (a b: list (K * V)) : wf a -> wf b -> (forall k, get k a = None <-> get k b = None) -> length a = length b.
Proof.
  intros Wa Wb H. rewrite <- (map_length fst a), <- (map_length fst b). apply Nat.le_antisymm; apply NoDup_incl_length; try assumption.
  - intros k Hk. destruct (in_dec (keqb_dec keqb keqb_spec) k (keys b)); [assumption|]. apply (get_none keqb keqb_spec) in n. apply H in n. apply (get_none keqb keqb_spec) in n. contradiction.
  - intros k Hk. destruct (in_dec (keqb_dec keqb keqb_spec) k (keys a)); [assumption|]. apply (get_none keqb keqb_spec) in n. apply H in n. apply (get_none keqb keqb_spec) in n. contradiction.
Qed.

(* C13 at the collection level: for maps (duplicate-free keys), any base map, both modes *)
Theorem mr_follow : forall ko previous current base, wf previous -> wf current -> wf base ->
  match mr_diff ko previous current with
  | None => same ko previous current
  | Some d =>
      ~ same ko previous current /\
      wf (mr_apply base d) /\
      forall k, get k (mr_apply base d) =
        match d with
        | MRReplace _ => get k current
        | MRModify _ =>
            match get k current, get k previous with
            | Some cv, None => Some cv                                   (* new key: current's value *)
            | Some cv, Some pv =>                                        (* retained key: patched in place, or left alone *)
                if ko then get k base else if veqb pv cv then get k base else option_map (fun bv => vapply bv (vdiff pv cv)) (get k base)
            | None, Some _ => None                                       (* removed key *)
            | None, None => get k base
            end
        end
  end.
Proof.
  intros ko previous current base Wp Wc Wb. unfold MapRec.mr_diff.
  destruct (collect_spec keqb keqb_spec previous Wp) as (Wp1 & Gp1 & Lp1).
  destruct (collect_spec keqb keqb_spec current Wc) as (Wc1 & Gc1 & Lc1).
  set (prev := al_collect keqb previous) in *. set (cur := al_collect keqb current) in *.
  rewrite Lp1, Lc1.
  destruct (Z.ltb_spec (Z.of_nat (length current)) (Z.of_nat (length previous) - Z.of_nat (length current))) as [Hlt|Hge].
  { cbn [MapRec.mr_apply]. split; [|split].
    - intros [Hk _]. apply (same_keys_length previous current Wp Wc) in Hk. lia.
    - eapply (wf_perm); [exact Wc1|apply Permutation_sym, iter_perm].
    - intros k. rewrite (get_perm keqb keqb_spec cur (iter_order cur) k Wc1) by (apply Permutation_sym, iter_perm). apply Gc1. }
  assert (Wpi: wf (iter_order prev)) by (eapply (wf_perm); [exact Wp1|apply Permutation_sym, iter_perm]).
  assert (Gpi: forall k, get k (iter_order prev) = get k previous).
  { intros k. rewrite (get_perm keqb keqb_spec prev (iter_order prev) k Wp1) by (apply Permutation_sym, iter_perm). apply Gp1. }
  destruct (loop_spec keqb veqb vdiff vapply keqb_spec ko (iter_order prev) [] cur Wpi Wc1) as (es & cur' & Hf & Wc' & Gc' & Ies & Nes).
  rewrite Hf. cbn [app].
  set (insl := map (fun p : K * V => @MRInsert K V D (fst p) (snd p)) (iter_order cur')).
  assert (Wci: wf (iter_order cur')) by (eapply (wf_perm); [exact Wc'|apply Permutation_sym, iter_perm]).
  assert (Gci: forall k, get k (iter_order cur') = match get k previous with Some _ => None | None => get k current end).
  { intros k. rewrite (get_perm keqb keqb_spec cur' (iter_order cur') k Wc') by (apply Permutation_sym, iter_perm). rewrite Gc', Gpi, Gc1. reflexivity. }
  assert (Iins: forall c, In c insl <-> match c with MRInsert k v => get k previous = None /\ get k current = Some v | _ => False end).
  { intros c. unfold insl. rewrite in_map_iff. split.
    - intros [[k v] [<- Hin]]. cbn [fst snd]. apply (in_get keqb keqb_spec _ _ _ Wci) in Hin. rewrite Gci in Hin. destruct (get k previous); [discriminate|auto].
    - destruct c as [k v|k|k d]; try contradiction. intros [H1 H2]. exists (k, v). split; [reflexivity|]. apply (get_in keqb keqb_spec). rewrite Gci, H1. exact H2. }
  assert (Kins: map ckey insl = keys (iter_order cur')).
  { unfold insl, al_keys. rewrite map_map. apply map_ext. intros [k v]. reflexivity. }
  assert (Ies': forall c, In c es <-> match c with
       | MRRemove k => get k previous <> None /\ get k current = None
       | MRChange k d => ko = false /\ exists pv cv, get k previous = Some pv /\ get k current = Some cv /\ veqb pv cv = false /\ d = vdiff pv cv
       | MRInsert _ _ => False end).
  { intros c. rewrite Ies. destruct c as [k v|k|k d]; [tauto| |]; rewrite ?Gpi, ?Gc1; [tauto|].
    split; intros (H & pv & cv & H1 & H2 & H3); (split; [exact H|]); exists pv, cv; rewrite ?Gpi, ?Gc1 in *; auto. }
  clear Ies.
  assert (N: NoDup (map ckey (es ++ insl))).
  { rewrite map_app. apply NoDup_app_intro'; [exact Nes|rewrite Kins; exact Wci|].
    intros k H1 H2. apply in_map_iff in H1. destruct H1 as [c1 [<- Hc1]]. apply in_map_iff in H2. destruct H2 as [c2 [Hk Hc2]].
    apply Ies' in Hc1. apply Iins in Hc2. destruct c2 as [k v| |]; try contradiction. cbn in Hk. subst k. destruct Hc2 as [Hp Hc].
    destruct c1 as [k1 v1|k1|k1 d1]; cbn in *; [contradiction| |].
    - destruct Hc1 as [H _]. contradiction.
    - destruct Hc1 as (_ & pv & cv & H & _). congruence. }
  assert (Iall: forall c, In c (es ++ insl) <-> match c with
       | MRRemove k => get k previous <> None /\ get k current = None
       | MRChange k d => ko = false /\ exists pv cv, get k previous = Some pv /\ get k current = Some cv /\ veqb pv cv = false /\ d = vdiff pv cv
       | MRInsert k v => get k previous = None /\ get k current = Some v end).
  { intros c. rewrite in_app_iff, Ies', Iins. destruct c; tauto. }
  remember (es ++ insl) as cs eqn:Ecs. clear Ecs. destruct cs as [|c0 cs0].
  - (* nothing emitted *)
    split.
    + intros k. split; intros H.
      * destruct (get k current) as [cv|] eqn:G; [|reflexivity]. exfalso. apply (Iall (MRInsert k cv)). auto.
      * destruct (get k previous) as [pv|] eqn:G; [|reflexivity]. exfalso. apply (Iall (MRRemove k)). split; [congruence|exact H].
    + intros Hko k pv cv H1 H2. destruct (veqb pv cv) eqn:Ev; [reflexivity|]. exfalso. apply (Iall (MRChange k (vdiff pv cv))). split; [exact Hko|]. exists pv, cv. auto.
  - set (cs := c0 :: cs0) in *. split.
    + (* the first entry witnesses a difference *)
      intros [S1 S2]. assert (Hc0: In c0 cs) by (left; reflexivity). apply Iall in Hc0.
      destruct c0 as [k v|k|k d].
      * destruct Hc0 as [H1 H2]. apply S1 in H1. congruence.
      * destruct Hc0 as [H1 H2]. apply S1 in H2. contradiction.
      * destruct Hc0 as (Hko & pv & cv & H1 & H2 & H3 & _). rewrite (S2 Hko k pv cv H1 H2) in H3. discriminate.
    + destruct (mr_apply_closed_form keqb vapply keqb_spec iter_order iter_perm base cs Wb N) as [Wr Gr].
      split; [exact Wr|]. intros k. rewrite Gr. clear Gr Wr.
      assert (Hit: forall c, In c cs -> ckey c = k -> find_key keqb ckey k cs = Some c).
      { intros c Hc <-. apply (find_key_unique keqb keqb_spec); assumption. }
      assert (Miss: (forall c, In c cs -> ckey c <> k) -> find_key keqb ckey k cs = None) by (apply (find_key_none keqb keqb_spec)).
      destruct (get k current) as [cv|] eqn:Gc; destruct (get k previous) as [pv|] eqn:Gp.
      * (* retained *)
        assert (Only: forall c, In c cs -> ckey c = k -> ko = false /\ veqb pv cv = false /\ c = MRChange k (vdiff pv cv)).
        { intros c Hc Hk. apply Iall in Hc. destruct c as [k1 v1|k1|k1 d1]; cbn in Hk; subst k1.
          - destruct Hc; congruence.
          - destruct Hc; congruence.
          - destruct Hc as (Hko & pv' & cv' & H1 & H2 & H3 & ->). rewrite Gp in H1. rewrite Gc in H2. injection H1 as <-. injection H2 as <-. auto. }
        destruct ko.
        { rewrite Miss; [reflexivity|]. intros c Hc Hk. destruct (Only c Hc Hk) as [H _]. discriminate. }
        destruct (veqb pv cv) eqn:Ev.
        { rewrite Miss; [reflexivity|]. intros c Hc Hk. destruct (Only c Hc Hk) as (_ & H & _). discriminate. }
        rewrite (Hit (MRChange k (vdiff pv cv))); [reflexivity| |reflexivity].
        apply Iall. split; [reflexivity|]. exists pv, cv. auto.
      * rewrite (Hit (MRInsert k cv)); [reflexivity| |reflexivity]. apply Iall. auto.
      * rewrite (Hit (MRRemove k)); [reflexivity| |reflexivity]. apply Iall. split; [congruence|exact Gc].
      * rewrite Miss; [reflexivity|]. intros c Hc Hk. apply Iall in Hc. destruct c as [k1 v1|k1|k1 d1]; cbn in Hk; subst k1.
        -- destruct Hc; congruence.
        -- destruct Hc as [H _]; congruence.
        -- destruct Hc as (_ & pv' & cv' & H1 & _). congruence.
Qed.

(* C20 for recursive maps / precondition of the closed form: a produced change list names every key at most once, and exactly the keys that changed *)
Theorem mr_diff_modify_spec : forall ko previous current cs0, wf previous -> wf current ->
  mr_diff ko previous current = Some (MRModify cs0) ->
  NoDup (map ckey cs0) /\
  forall c, In c cs0 <-> match c with
       | MRRemove k => get k previous <> None /\ get k current = None
       | MRChange k d => ko = false /\ exists pv cv, get k previous = Some pv /\ get k current = Some cv /\ veqb pv cv = false /\ d = vdiff pv cv
       | MRInsert k v => get k previous = None /\ get k current = Some v end.
Proof.
  intros ko previous current cs0 Wp Wc Hdiff. unfold MapRec.mr_diff in Hdiff.
  destruct (collect_spec keqb keqb_spec previous Wp) as (Wp1 & Gp1 & Lp1).
  destruct (collect_spec keqb keqb_spec current Wc) as (Wc1 & Gc1 & Lc1).
  set (prev := al_collect keqb previous) in *. set (cur := al_collect keqb current) in *.
  rewrite Lp1, Lc1 in Hdiff.
  destruct (Z.ltb_spec (Z.of_nat (length current)) (Z.of_nat (length previous) - Z.of_nat (length current))) as [Hlt|Hge]; [discriminate|].
  assert (Wpi: wf (iter_order prev)) by (eapply (wf_perm); [exact Wp1|apply Permutation_sym, iter_perm]).
  assert (Gpi: forall k, get k (iter_order prev) = get k previous).
  { intros k. rewrite (get_perm keqb keqb_spec prev (iter_order prev) k Wp1) by (apply Permutation_sym, iter_perm). apply Gp1. }
  destruct (loop_spec keqb veqb vdiff vapply keqb_spec ko (iter_order prev) [] cur Wpi Wc1) as (es & cur' & Hf & Wc' & Gc' & Ies & Nes).
  rewrite Hf in Hdiff. cbn [app] in Hdiff.
  set (insl := map (fun p : K * V => @MRInsert K V D (fst p) (snd p)) (iter_order cur')).
  assert (Wci: wf (iter_order cur')) by (eapply (wf_perm); [exact Wc'|apply Permutation_sym, iter_perm]).
  assert (Gci: forall k, get k (iter_order cur') = match get k previous with Some _ => None | None => get k current end).
  { intros k. rewrite (get_perm keqb keqb_spec cur' (iter_order cur') k Wc') by (apply Permutation_sym, iter_perm). rewrite Gc', Gpi, Gc1. reflexivity. }
  assert (Iins: forall c, In c insl <-> match c with MRInsert k v => get k previous = None /\ get k current = Some v | _ => False end).
  { intros c. unfold insl. rewrite in_map_iff. split.
    - intros [[k v] [<- Hin]]. cbn [fst snd]. apply (in_get keqb keqb_spec _ _ _ Wci) in Hin. rewrite Gci in Hin. destruct (get k previous); [discriminate|auto].
    - destruct c as [k v|k|k d]; try contradiction. intros [H1 H2]. exists (k, v). split; [reflexivity|]. apply (get_in keqb keqb_spec). rewrite Gci, H1. exact H2. }
  assert (Kins: map ckey insl = keys (iter_order cur')).
  { unfold insl, al_keys. rewrite map_map. apply map_ext. intros [k v]. reflexivity. }
  assert (Ies': forall c, In c es <-> match c with
       | MRRemove k => get k previous <> None /\ get k current = None
       | MRChange k d => ko = false /\ exists pv cv, get k previous = Some pv /\ get k current = Some cv /\ veqb pv cv = false /\ d = vdiff pv cv
       | MRInsert _ _ => False end).
  { intros c. rewrite Ies. destruct c as [k v|k|k d]; [tauto| |]; rewrite ?Gpi, ?Gc1; [tauto|].
    split; intros (H & pv & cv & H1 & H2 & H3); (split; [exact H|]); exists pv, cv; rewrite ?Gpi, ?Gc1 in *; auto. }
  clear Ies.
  assert (N: NoDup (map ckey (es ++ insl))).
  { rewrite map_app. apply NoDup_app_intro'; [exact Nes|rewrite Kins; exact Wci|].
    intros k H1 H2. apply in_map_iff in H1. destruct H1 as [c1 [<- Hc1]]. apply in_map_iff in H2. destruct H2 as [c2 [Hk Hc2]].
    apply Ies' in Hc1. apply Iins in Hc2. destruct c2 as [k v| |]; try contradiction. cbn in Hk. subst k. destruct Hc2 as [Hp Hc].
    destruct c1 as [k1 v1|k1|k1 d1]; cbn in *; [contradiction| |].
    - destruct Hc1 as [H _]. contradiction.
    - destruct Hc1 as (_ & pv & cv & H & _). congruence. }
  assert (Iall: forall c, In c (es ++ insl) <-> match c with
       | MRRemove k => get k previous <> None /\ get k current = None
       | MRChange k d => ko = false /\ exists pv cv, get k previous = Some pv /\ get k current = Some cv /\ veqb pv cv = false /\ d = vdiff pv cv
       | MRInsert k v => get k previous = None /\ get k current = Some v end).
  { intros c. rewrite in_app_iff, Ies', Iins. destruct c; tauto. }
  subst insl. revert N Iall Hdiff. generalize (es ++ map (fun p : K * V => @MRInsert K V D (fst p) (snd p)) (iter_order cur')) as cs. intros cs N Iall Hdiff.
  destruct cs as [|c1 cs1]; [discriminate|]. injection Hdiff as <-. split; [exact N|exact Iall].
Qed.
End P3.
Print Assumptions mr_follow. Print Assumptions mr_diff_modify_spec.
