From Coq Require Import List ZArith.
Import ListNotations.
Require Import R.AssocList R.MapRec R.SortedMap R.DModel3.
Local Open Scope Z_scope.
Definition inner := SStruct (FCons FPlain (FCons FSkip FNil)).
Definition outer := SStruct (FCons (FRecurse inner) (FCons (FRecurseOpt inner) (FCons (FMapRec false inner) (FCons (FMapRec true inner) (FCons FPlain (FCons FSkip FNil)))))).
Definition i (a s: Z) := VStruct [VAtom a; VAtom s].
Definition a := VStruct [i 1 1; VSome (i 2 2); VRMap [(1, i 1 1); (2, i 2 2); (3, i 3 3); (4, i 4 4)]; VRMap [(1, i 1 1); (2, i 2 2)]; VAtom 5; VAtom 6].
Definition b := VStruct [i 1 9; VSome (i 7 2); VRMap [(2, i 2 2); (3, i 3 8); (4, i 9 4); (5, i 5 5)]; VRMap [(2, i 8 8); (3, i 3 3)]; VAtom 5; VAtom 7].
Definition c := VStruct [i 1 9; VSome (i 7 2); VRMap [(4, i 9 0)]; VRMap [(2, i 8 8); (3, i 3 3)]; VAtom 5; VAtom 7].
Definition none2 {A B} (_ : A) (_: A) : option B := None.
Definition D := diff_s unit unit unit none2 none2 none2 (fun m => m).
Definition Ap := DModel3.apply unit unit unit (fun _ l => l) (fun l _ => l) (fun l _ => l) (fun m => m).
Eval vm_compute in D outer a b.
Eval vm_compute in Ap outer a (D outer a b).
Eval vm_compute in D outer b c.
Eval vm_compute in Ap outer (Ap outer a (D outer a b)) (D outer b c).
