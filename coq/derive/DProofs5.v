(* C04: change detection is exact, on the full universe *)
From Coq Require Import List Arith ZArith Lia Bool Permutation.
Import ListNotations.
Require Import R.AssocList R.MapRec R.MRProofs1 R.MRProofs2 R.MRProofs3 R.SortedMap R.DModel3 R.DProofs4.

Fixpoint value_eqb_refl (a: value) {struct a} : value_eqb a a = true.
Proof.
  destruct a as [x| |x|l|m|m|xs]; cbn.
  - apply Z.eqb_refl.
  - reflexivity.
  - apply value_eqb_refl.
  - apply zlist_eqb_eq. reflexivity.
  - apply zzlist_eqb_eq. reflexivity.
  - induction m as [|[k x] m IH]; [reflexivity|]. rewrite Z.eqb_refl, value_eqb_refl, IH. reflexivity.
  - induction xs as [|x xs IH]; [reflexivity|]. rewrite value_eqb_refl, IH. reflexivity.
Qed.
Lemma value_eqb_iff a b : value_eqb a b = true <-> a = b.
Proof. split; [apply value_eqb_eq|intros ->; apply value_eqb_refl]. Qed.

Section P.
Variables (oscript udiff_t mdiff_t: Type).
Variable odiff : list Z -> list Z -> option oscript.
Variable udiff : list Z -> list Z -> option udiff_t.
Variable mdiff : list (Z * Z) -> list (Z * Z) -> option mdiff_t.
Variable iter_order : list (Z * value) -> list (Z * value).
Hypothesis iter_perm : forall m, Permutation (iter_order m) m.
(* "absent exactly when equal" of the back ends (C07, C11, C12) *)
Hypothesis HO : forall t s, odiff t s = None <-> s = t.
Hypothesis HU : forall p c, udiff p c = None <-> Permutation p c.
Hypothesis HM : forall p c, sortedk p -> sortedk c -> (mdiff p c = None <-> p = c).

Notation entry := (DModel3.entry oscript udiff_t mdiff_t).
Notation diff_s := (DModel3.diff_s oscript udiff_t mdiff_t odiff udiff mdiff iter_order).
Notation diff_fs := (DModel3.diff_fs oscript udiff_t mdiff_t odiff udiff mdiff iter_order).
Notation diff_f := (DModel3.diff_f oscript udiff_t mdiff_t odiff udiff mdiff iter_order).
Notation field_of := (DModel3.field_of oscript udiff_t mdiff_t).
Notation get := (@al_get Z value Z.eqb).

(* "differs in the sense of its strategy" *)
Definition differs_f (f: fstrat) (x y: value) : Prop :=
  match f with
  | FSkip => False
  | FPlain | FRecurse _ | FRecurseOpt _ | FOrdered | FMapFlat => x <> y       (* all fields, skipped ones included, as == does *)
  | FUnordArr => match x, y with VSeq l1, VSeq l2 => ~ Permutation l1 l2 | _, _ => False end
  | FMapRec ko _ => match x, y with VRMap l1, VRMap l2 => ~ same Z.eqb value_eqb ko l1 l2 | _, _ => False end
  end.

Lemma diff_f_exact f i x y : wt_f f x -> wt_f f y ->
  (~ differs_f f x y /\ diff_f f i x y = []) \/ (differs_f f x y /\ exists e, diff_f f i x y = [e] /\ field_of e = Some i).
Proof.
  intros Wx Wy. destruct f as [| |s|s| | | |ko s]; cbn [differs_f].
  - cbn. destruct (value_eqb x y) eqn:E; [left; split; [intros H; apply H; apply value_eqb_eq; exact E|reflexivity]|].
    right. split; [intros ->; rewrite value_eqb_refl in E; discriminate|eexists; split; reflexivity].
  - left. split; [tauto|reflexivity].
  - cbn [DModel3.diff_f]. destruct (value_eqb x y) eqn:E; [left; split; [intros H; apply H; apply value_eqb_eq; exact E|reflexivity]|].
    right. split; [intros ->; rewrite value_eqb_refl in E; discriminate|eexists; split; reflexivity].
  - cbn in Wx, Wy. cbn [DModel3.diff_f]. destruct x as [| |v1| | | |]; try contradiction; destruct y as [| |v2| | | |]; try contradiction.
    + left. split; [intros H; apply H; reflexivity|reflexivity].
    + right. split; [discriminate|eexists; split; reflexivity].
    + right. split; [discriminate|eexists; split; reflexivity].
    + destruct (value_eqb v1 v2) eqn:E; [left; split; [intros H; apply H; f_equal; apply value_eqb_eq; exact E|reflexivity]|].
      right. split; [intros [= ->]; rewrite value_eqb_refl in E; discriminate|eexists; split; reflexivity].
  - cbn in Wx, Wy. destruct x as [| | |l1| | |]; try contradiction. destruct y as [| | |l2| | |]; try contradiction. cbn [DModel3.diff_f].
    destruct (odiff l2 l1) eqn:E.
    + right. split; [intros [= ->]; assert (odiff l2 l2 = None) by (apply HO; reflexivity); congruence|eexists; split; reflexivity].
    + left. split; [intros H; apply H; f_equal; apply HO; exact E|reflexivity].
  - cbn in Wx, Wy. destruct x as [| | |l1| | |]; try contradiction. destruct y as [| | |l2| | |]; try contradiction. cbn [DModel3.diff_f].
    destruct (udiff l1 l2) eqn:E.
    + right. split; [intros P; apply HU in P; congruence|eexists; split; reflexivity].
    + left. split; [intros H; apply H; apply HU; exact E|reflexivity].
  - cbn in Wx, Wy. destruct x as [| | | |m1| |]; try contradiction. destruct y as [| | | |m2| |]; try contradiction. cbn [DModel3.diff_f].
    destruct (mdiff m1 m2) eqn:E.
    + right. split; [intros [= ->]; assert (mdiff m2 m2 = None) by (apply (HM m2 m2 Wy Wy); reflexivity); congruence|eexists; split; reflexivity].
    + left. split; [intros H; apply H; f_equal; apply (HM m1 m2 Wx Wy); exact E|reflexivity].
  - cbn in Wx, Wy. destruct x as [| | | | |l1|]; try contradiction. destruct y as [| | | | |l2|]; try contradiction.
    destruct Wx as [S1 _]. destruct Wy as [S2 _].
    rewrite (diff_f_maprec oscript udiff_t mdiff_t odiff udiff mdiff).
    pose proof (mr_follow Z.eqb value_eqb (diff_s s) (fun v (dd: list entry) => v) Zeqb_spec' iter_order iter_perm ko l1 l2 l1 (sorted_wf _ S1) (sorted_wf _ S2) (sorted_wf _ S1)) as MF.
    destruct (mr_diff Z.eqb value_eqb (diff_s s) iter_order ko l1 l2) as [d|].
    + right. split; [apply MF|eexists; split; reflexivity].
    + left. split; [intros H; apply H; exact MF|reflexivity].
Qed.

(* exactly one entry per differing field, in declaration order, none for the others *)
Fixpoint entries_match (fs: fields) (i: nat) (xs ys: list value) (d: list entry) {struct fs} : Prop :=
  match fs, xs, ys with
  | FNil, [], [] => d = []
  | FCons f fs', x :: xs', y :: ys' =>
      (~ differs_f f x y /\ entries_match fs' (S i) xs' ys' d) \/
      (differs_f f x y /\ exists e d', d = e :: d' /\ field_of e = Some i /\ entries_match fs' (S i) xs' ys' d')
  | _, _, _ => False
  end.

Lemma diff_fs_cons f fs i x xs y ys : diff_fs (FCons f fs) i (x :: xs) (y :: ys) = diff_f f i x y ++ diff_fs fs (S i) xs ys.
Proof. reflexivity. Qed.
Theorem change_detection_exact : forall fs i xs ys, wt_fs fs xs -> wt_fs fs ys -> entries_match fs i xs ys (diff_fs fs i xs ys).
Proof.
  induction fs as [|f fs IH]; intros i xs ys Wx Wy; cbn in Wx, Wy.
  - destruct xs; [|contradiction]. destruct ys; [|contradiction]. reflexivity.
  - destruct xs as [|x xs]; [contradiction|]. destruct ys as [|y ys]; [contradiction|]. destruct Wx as [Wx1 Wx2]. destruct Wy as [Wy1 Wy2].
    rewrite diff_fs_cons. cbn [entries_match]. destruct (diff_f_exact f i x y Wx1 Wy1) as [[Hn ->]|[Hd (e & -> & He)]].
    + left. split; [exact Hn|]. cbn [app]. apply IH; assumption.
    + right. split; [exact Hd|]. exists e, (diff_fs fs (S i) xs ys). split; [reflexivity|]. split; [exact He|]. apply IH; assumption.
Qed.

Theorem enum_diff : forall a b, diff_s SEnum a b = if value_eqb a b then [] else [EEnumReplace oscript udiff_t mdiff_t b].
Proof. reflexivity. Qed.

(* a.diff(&a) is empty (== on the model's values is reflexive) *)
Corollary diff_self_empty : forall s a, wt_s s a -> diff_s s a a = [].
Proof.
  intros [fs|] a W; [|cbn; rewrite value_eqb_refl; reflexivity].
  cbn in W. destruct a as [| | | | | |xs]; try contradiction. change (diff_s (SStruct fs) (VStruct xs) (VStruct xs)) with (diff_fs fs 0 xs xs).
  pose proof (change_detection_exact fs 0 xs xs W W) as M. revert M. generalize (diff_fs fs 0 xs xs) as d. generalize 0 as i. clear W.
  revert xs. induction fs as [|f fs IH]; intros xs i d M; cbn in M.
  - destruct xs; [exact M|contradiction].
  - destruct xs as [|x xs]; [contradiction|]. destruct M as [[_ M]|[Hd _]]; [eapply IH; exact M|].
    exfalso. destruct f; cbn in Hd; try contradiction; try (apply Hd; reflexivity).
    + destruct x; try contradiction. apply Hd. apply Permutation_refl.
    + destruct x; try contradiction. apply Hd. split; [tauto|]. intros _ k pv cv H1 H2. rewrite H1 in H2. injection H2 as <-. apply value_eqb_refl.
Qed.
End P.
Print Assumptions change_detection_exact. Print Assumptions diff_self_empty.
