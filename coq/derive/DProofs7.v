(* C15: any sequence of setter calls; replaying the returned entries on a copy of the initial value reproduces the final value *)
From Coq Require Import List Arith ZArith Lia Bool Permutation.
Import ListNotations.
Require Import R.AssocList R.MapRec R.MRProofs1 R.MRProofs2 R.MRProofs3 R.SortedMap R.DModel3 R.DProofs4 R.DProofs6.
Require Import R.DSetters.

Section P7.
Variables (oscript udiff_t mdiff_t: Type).
Variable odiff : list Z -> list Z -> option oscript.
Variable oapply : oscript -> list Z -> list Z.
Variable udiff : list Z -> list Z -> option udiff_t.
Variable uapply : list Z -> udiff_t -> list Z.
Variable mdiff : list (Z * Z) -> list (Z * Z) -> option mdiff_t.
Variable mapply : list (Z * Z) -> mdiff_t -> list (Z * Z).
Variable iter_order : list (Z * value) -> list (Z * value).
Hypothesis iter_perm : forall m, Permutation (iter_order m) m.
Hypothesis HO1 : forall t s, odiff t s = None -> s = t.
Hypothesis HO2 : forall t s d, odiff t s = Some d -> oapply d s = t.
Hypothesis HU1 : forall p c, udiff p c = None -> Permutation p c.
Hypothesis HU2 : forall p c d base, udiff p c = Some d -> Permutation base p -> Permutation (uapply base d) c.
Hypothesis HM1 : forall p c, sortedk p -> sortedk c -> mdiff p c = None -> p = c.
Hypothesis HM2 : forall p c d, sortedk p -> sortedk c -> mdiff p c = Some d -> mapply p d = c.

Notation entry := (DModel3.entry oscript udiff_t mdiff_t).
Notation diff_f := (DModel3.diff_f oscript udiff_t mdiff_t odiff udiff mdiff iter_order).
Notation apply_fs := (DModel3.apply_fs oscript udiff_t mdiff_t oapply uapply mapply iter_order).
Notation apply_f := (DModel3.apply_f oscript udiff_t mdiff_t oapply uapply mapply iter_order).
Notation has_field := (DProofs6.has_field oscript udiff_t mdiff_t).
Notation dflt := DSetters.dflt.

Notation set_nth := DSetters.set_nth.
Notation setter := (DSetters.setter oscript udiff_t mdiff_t odiff udiff mdiff iter_order).
Notation run := (DSetters.run oscript udiff_t mdiff_t odiff udiff mdiff iter_order).
Fixpoint ops_ok (fs: fields) (n: nat) (ops: list (nat * value)) : Prop :=
  match ops with [] => True | (i, v) :: ops' => i < n /\ wt_f (strat_at fs i) v /\ ops_ok fs n ops' end.

(* pointwise readings of the field-list predicates *)
Lemma wt_fs_pointwise fs : forall xs, wt_fs fs xs <-> (length xs = flen fs /\ forall j, j < length xs -> wt_f (strat_at fs j) (nth j xs dflt)).
Proof.
  induction fs as [|f fs IH]; intros xs; cbn [wt_fs flen].
  - destruct xs as [|x xs]; cbn.
    + split; [intros _; split; [reflexivity|intros j Hj; lia]|intros _; exact I].
    + split; [contradiction|intros [H _]; discriminate].
  - destruct xs as [|x xs]; [cbn; split; [contradiction|intros [H _]; discriminate]|]. rewrite IH. cbn [length]. split.
    + intros (Hx & Hl & Hp). split; [lia|]. intros [|j] Hj; cbn [nth strat_at]; [exact Hx|apply Hp; lia].
    + intros (Hl & Hp). split; [apply (Hp 0); lia|]. split; [lia|]. intros j Hj. apply (Hp (S j)). lia.
Qed.
Lemma Eq_fs_pointwise fs : forall xs ys, Eq_fs fs xs ys <-> (length xs = flen fs /\ length ys = flen fs /\ forall j, j < flen fs -> Eq_f (strat_at fs j) (nth j xs dflt) (nth j ys dflt)).
Proof.
  induction fs as [|f fs IH]; intros xs ys; cbn [Eq_fs flen].
  - destruct xs as [|x xs]; destruct ys as [|y ys]; cbn.
    + split; [intros _; repeat split; intros j Hj; lia|intros _; exact I].
    + split; [contradiction|intros (_ & H & _); discriminate].
    + split; [contradiction|intros (H & _); discriminate].
    + split; [contradiction|intros (H & _); discriminate].
  - destruct xs as [|x xs]; [cbn; split; [contradiction|intros (H & _); discriminate]|]. destruct ys as [|y ys]; [cbn; split; [contradiction|intros (_ & H & _); discriminate]|].
    rewrite IH. cbn [length]. split.
    + intros (Hx & Hl1 & Hl2 & Hp). split; [lia|]. split; [lia|]. intros [|j] Hj; cbn [nth strat_at]; [exact Hx|apply Hp; lia].
    + intros (Hl1 & Hl2 & Hp). split; [apply (Hp 0); lia|]. split; [lia|]. split; [lia|]. intros j Hj. apply (Hp (S j)). lia.
Qed.
Lemma nth_set_nth i v xs j : i < length xs -> nth j (set_nth i v xs) dflt = if j =? i then v else nth j xs dflt.
Proof.
  revert i j. induction xs as [|x xs IH]; intros i j Hi; [cbn in Hi; lia|]. destruct i as [|i]; destruct j as [|j]; cbn; try reflexivity.
  apply IH. cbn in Hi. lia.
Qed.
Lemma length_set_nth i v xs : length (set_nth i v xs) = length xs.
Proof. revert i. induction xs as [|x xs IH]; intros [|i]; cbn; auto. Qed.

Lemma filter_all_eq i (d: list entry) : DProofs4.fields_eq oscript udiff_t mdiff_t i d -> forall j, filter (has_field j) d = if j =? i then d else [].
Proof.
  intros F j. induction d as [|e d IH]; [destruct (j =? i); reflexivity|]. inversion F as [|? ? He Hd]; subst. cbn [filter].
  unfold DProofs6.has_field at 1. rewrite He. rewrite (IH Hd). rewrite (Nat.eqb_sym i j). destruct (j =? i); reflexivity.
Qed.

Lemma fold_apply_fs_length fs (d: list entry) : forall c, length (fold_left (apply_fs fs 0) d c) = length c.
Proof. induction d as [|e d IH]; intros c; [reflexivity|]. cbn [fold_left]. rewrite IH. apply (apply_fs_length oscript udiff_t mdiff_t oapply uapply mapply iter_order). Qed.

(* one setter call, replayed on an equivalent copy *)
Lemma setter_step fs xs copy i v : wt_fs fs xs -> wt_fs fs copy -> Eq_fs fs copy xs -> i < length xs -> wt_f (strat_at fs i) v ->
  let '(xs1, e1) := setter fs xs i v in
  let copy1 := fold_left (apply_fs fs 0) e1 copy in
  wt_fs fs xs1 /\ wt_fs fs copy1 /\ Eq_fs fs copy1 xs1.
Proof.
  intros Wx Wc He Hi Wv. unfold setter.
  apply wt_fs_pointwise in Wx. destruct Wx as [Lx Px]. apply wt_fs_pointwise in Wc. destruct Wc as [Lc Pc].
  apply Eq_fs_pointwise in He. destruct He as (_ & _ & Pe).
  set (f := strat_at fs i). set (x := nth i xs dflt). set (e1 := diff_f f i x v).
  assert (Fe: DProofs4.fields_eq oscript udiff_t mdiff_t i e1) by apply diff_f_fields.
  assert (Len1: length (fold_left (apply_fs fs 0) e1 copy) = length copy).
  { apply fold_apply_fs_length. }
  assert (Nth: forall j, j < length copy -> nth j (fold_left (apply_fs fs 0) e1 copy) dflt = if j =? i then fold_left (apply_f f) e1 (nth i copy dflt) else nth j copy dflt).
  { intros j Hj. rewrite (fold_apply_nth oscript udiff_t mdiff_t oapply uapply mapply iter_order fs e1 copy j Hj ltac:(unfold flen in *; lia)).
    rewrite (filter_all_eq i e1 Fe j). destruct (Nat.eqb_spec j i) as [->|Hne]; reflexivity. }
  (* the patched field of the copy *)
  pose proof (proj2 (proj2 (follower_all oscript udiff_t mdiff_t odiff oapply udiff uapply mdiff mapply iter_order iter_perm HO1 HO2 HU1 HU2 HM1 HM2))
                f true i (nth i copy dflt) x v (Px i Hi) Wv (Pc i ltac:(lia)) (Pe i ltac:(lia))) as Rf.
  fold e1 in Rf.
  pose proof (proj2 (proj2 R_implies_Eq) f true _ _ _ Wv Rf) as Ef.
  pose proof (proj2 (proj2 R_wt) f true _ _ _ (Pc i ltac:(lia)) Wv Rf) as Wf.
  split; [|split].
  - apply wt_fs_pointwise. rewrite length_set_nth. split; [exact Lx|]. intros j Hj. rewrite nth_set_nth by exact Hi.
    destruct (Nat.eqb_spec j i) as [->|Hne]; [exact Wv|apply Px; exact Hj].
  - apply wt_fs_pointwise. rewrite Len1. split; [exact Lc|]. intros j Hj. rewrite Nth by exact Hj.
    destruct (Nat.eqb_spec j i) as [->|Hne]; [exact Wf|apply Pc; exact Hj].
  - apply Eq_fs_pointwise. rewrite Len1, length_set_nth. split; [exact Lc|]. split; [exact Lx|]. intros j Hj. rewrite Nth by lia. rewrite nth_set_nth by exact Hi.
    destruct (Nat.eqb_spec j i) as [->|Hne]; [exact Ef|apply Pe; exact Hj].
Qed.

Theorem setters_replay fs : forall ops xs copy, wt_fs fs xs -> wt_fs fs copy -> Eq_fs fs copy xs -> ops_ok fs (length xs) ops ->
  let '(final, es) := run fs ops xs in Eq_fs fs (fold_left (apply_fs fs 0) es copy) final.
Proof.
  induction ops as [|[i v] ops IH]; intros xs copy Wx Wc He Hok; cbn [run]; [exact He|].
  cbn in Hok. destruct Hok as (Hi & Wv & Hok').
  pose proof (setter_step fs xs copy i v Wx Wc He Hi Wv) as St. unfold setter in *.
  destruct St as (W1 & W2 & E1).
  specialize (IH (set_nth i v xs) _ W1 W2 E1). rewrite length_set_nth in IH. specialize (IH Hok').
  destruct (run fs ops (set_nth i v xs)) as [final es]. rewrite fold_left_app. exact IH.
Qed.
End P7.
Print Assumptions setters_replay.
