
(** val negb : bool -> bool **)

let negb = function
| true -> false
| false -> true

type nat =
| O
| S of nat

(** val fst : ('a1 * 'a2) -> 'a1 **)

let fst = function
| (x, _) -> x

(** val snd : ('a1 * 'a2) -> 'a2 **)

let snd = function
| (_, y) -> y

(** val length : 'a1 list -> nat **)

let rec length = function
| [] -> O
| _ :: l' -> S (length l')

(** val app : 'a1 list -> 'a1 list -> 'a1 list **)

let rec app l m =
  match l with
  | [] -> m
  | a :: l1 -> a :: (app l1 m)

type comparison =
| Eq
| Lt
| Gt

(** val compOpp : comparison -> comparison **)

let compOpp = function
| Eq -> Eq
| Lt -> Gt
| Gt -> Lt

(** val add : nat -> nat -> nat **)

let rec add n m =
  match n with
  | O -> m
  | S p -> S (add p m)

(** val sub : nat -> nat -> nat **)

let rec sub n m =
  match n with
  | O -> n
  | S k -> (match m with
            | O -> n
            | S l -> sub k l)

module Nat =
 struct
  (** val leb : nat -> nat -> bool **)

  let rec leb n m =
    match n with
    | O -> true
    | S n' -> (match m with
               | O -> false
               | S m' -> leb n' m')

  (** val ltb : nat -> nat -> bool **)

  let ltb n m =
    leb (S n) m
 end

(** val map : ('a1 -> 'a2) -> 'a1 list -> 'a2 list **)

let rec map f = function
| [] -> []
| a :: t -> (f a) :: (map f t)

(** val flat_map : ('a1 -> 'a2 list) -> 'a1 list -> 'a2 list **)

let rec flat_map f = function
| [] -> []
| x :: t -> app (f x) (flat_map f t)

(** val fold_left : ('a1 -> 'a2 -> 'a1) -> 'a2 list -> 'a1 -> 'a1 **)

let rec fold_left f l a0 =
  match l with
  | [] -> a0
  | b :: t -> fold_left f t (f a0 b)

(** val filter : ('a1 -> bool) -> 'a1 list -> 'a1 list **)

let rec filter f = function
| [] -> []
| x :: l0 -> if f x then x :: (filter f l0) else filter f l0

(** val repeat : 'a1 -> nat -> 'a1 list **)

let rec repeat x = function
| O -> []
| S k -> x :: (repeat x k)

type positive =
| XI of positive
| XO of positive
| XH

type z =
| Z0
| Zpos of positive
| Zneg of positive

module Pos =
 struct
  (** val succ : positive -> positive **)

  let rec succ = function
  | XI p -> XO (succ p)
  | XO p -> XI p
  | XH -> XO XH

  (** val add : positive -> positive -> positive **)

  let rec add x y =
    match x with
    | XI p ->
      (match y with
       | XI q -> XO (add_carry p q)
       | XO q -> XI (add p q)
       | XH -> XO (succ p))
    | XO p ->
      (match y with
       | XI q -> XI (add p q)
       | XO q -> XO (add p q)
       | XH -> XI p)
    | XH -> (match y with
             | XI q -> XO (succ q)
             | XO q -> XI q
             | XH -> XO XH)

  (** val add_carry : positive -> positive -> positive **)

  and add_carry x y =
    match x with
    | XI p ->
      (match y with
       | XI q -> XI (add_carry p q)
       | XO q -> XO (add_carry p q)
       | XH -> XI (succ p))
    | XO p ->
      (match y with
       | XI q -> XO (add_carry p q)
       | XO q -> XI (add p q)
       | XH -> XO (succ p))
    | XH ->
      (match y with
       | XI q -> XI (succ q)
       | XO q -> XO (succ q)
       | XH -> XI XH)

  (** val pred_double : positive -> positive **)

  let rec pred_double = function
  | XI p -> XI (XO p)
  | XO p -> XI (pred_double p)
  | XH -> XH

  (** val compare_cont : comparison -> positive -> positive -> comparison **)

  let rec compare_cont r x y =
    match x with
    | XI p ->
      (match y with
       | XI q -> compare_cont r p q
       | XO q -> compare_cont Gt p q
       | XH -> Gt)
    | XO p ->
      (match y with
       | XI q -> compare_cont Lt p q
       | XO q -> compare_cont r p q
       | XH -> Gt)
    | XH -> (match y with
             | XH -> r
             | _ -> Lt)

  (** val compare : positive -> positive -> comparison **)

  let compare =
    compare_cont Eq

  (** val of_succ_nat : nat -> positive **)

  let rec of_succ_nat = function
  | O -> XH
  | S x -> succ (of_succ_nat x)
 end

module Z =
 struct
  (** val double : z -> z **)

  let double = function
  | Z0 -> Z0
  | Zpos p -> Zpos (XO p)
  | Zneg p -> Zneg (XO p)

  (** val succ_double : z -> z **)

  let succ_double = function
  | Z0 -> Zpos XH
  | Zpos p -> Zpos (XI p)
  | Zneg p -> Zneg (Pos.pred_double p)

  (** val pred_double : z -> z **)

  let pred_double = function
  | Z0 -> Zneg XH
  | Zpos p -> Zpos (Pos.pred_double p)
  | Zneg p -> Zneg (XI p)

  (** val pos_sub : positive -> positive -> z **)

  let rec pos_sub x y =
    match x with
    | XI p ->
      (match y with
       | XI q -> double (pos_sub p q)
       | XO q -> succ_double (pos_sub p q)
       | XH -> Zpos (XO p))
    | XO p ->
      (match y with
       | XI q -> pred_double (pos_sub p q)
       | XO q -> double (pos_sub p q)
       | XH -> Zpos (Pos.pred_double p))
    | XH ->
      (match y with
       | XI q -> Zneg (XO q)
       | XO q -> Zneg (Pos.pred_double q)
       | XH -> Z0)

  (** val add : z -> z -> z **)

  let add x y =
    match x with
    | Z0 -> y
    | Zpos x' ->
      (match y with
       | Z0 -> x
       | Zpos y' -> Zpos (Pos.add x' y')
       | Zneg y' -> pos_sub x' y')
    | Zneg x' ->
      (match y with
       | Z0 -> x
       | Zpos y' -> pos_sub y' x'
       | Zneg y' -> Zneg (Pos.add x' y'))

  (** val opp : z -> z **)

  let opp = function
  | Z0 -> Z0
  | Zpos x0 -> Zneg x0
  | Zneg x0 -> Zpos x0

  (** val sub : z -> z -> z **)

  let sub m n =
    add m (opp n)

  (** val compare : z -> z -> comparison **)

  let compare x y =
    match x with
    | Z0 -> (match y with
             | Z0 -> Eq
             | Zpos _ -> Lt
             | Zneg _ -> Gt)
    | Zpos x' -> (match y with
                  | Zpos y' -> Pos.compare x' y'
                  | _ -> Gt)
    | Zneg x' ->
      (match y with
       | Zneg y' -> compOpp (Pos.compare x' y')
       | _ -> Lt)

  (** val ltb : z -> z -> bool **)

  let ltb x y =
    match compare x y with
    | Lt -> true
    | _ -> false

  (** val of_nat : nat -> z **)

  let of_nat = function
  | O -> Z0
  | S n0 -> Zpos (Pos.of_succ_nat n0)
 end

type ('k, 'v) vmap = ('k * ('v * nat)) list

(** val vm_get :
    ('a1 -> 'a1 -> bool) -> 'a1 -> ('a1, 'a2) vmap -> ('a2 * nat) option **)

let rec vm_get keqb k = function
| [] -> None
| p :: m' -> let (k', e) = p in if keqb k' k then Some e else vm_get keqb k m'

(** val vm_remove :
    ('a1 -> 'a1 -> bool) -> 'a1 -> ('a1, 'a2) vmap -> ('a1, 'a2) vmap **)

let rec vm_remove keqb k = function
| [] -> []
| p :: m' ->
  let (k', e) = p in
  if keqb k' k then m' else (k', e) :: (vm_remove keqb k m')

(** val vm_set :
    ('a1 -> 'a1 -> bool) -> 'a1 -> ('a2 * nat) -> ('a1, 'a2) vmap -> ('a1,
    'a2) vmap **)

let rec vm_set keqb k e = function
| [] -> (k, e) :: []
| p :: m' ->
  let (k', e') = p in
  if keqb k' k then (k', e) :: m' else (k', e') :: (vm_set keqb k e m')

(** val collect_key :
    ('a1 -> 'a1 -> bool) -> ('a1 * 'a2) list -> ('a1, 'a2) vmap **)

let collect_key keqb l =
  fold_left (fun m p ->
    match vm_get keqb (fst p) m with
    | Some p0 -> let (v, c) = p0 in vm_set keqb (fst p) (v, (S c)) m
    | None -> vm_set keqb (fst p) ((snd p), (S O)) m) l []

(** val collect_key_value :
    ('a1 -> 'a1 -> bool) -> ('a2 -> 'a2 -> bool) -> ('a1 * 'a2) list -> ('a1,
    'a2) vmap **)

let collect_key_value keqb veqb l =
  fold_left (fun m p ->
    match vm_get keqb (fst p) m with
    | Some p0 ->
      let (v, c) = p0 in
      if veqb v (snd p)
      then vm_set keqb (fst p) (v, (S c)) m
      else vm_set keqb (fst p) ((snd p), (S O)) m
    | None -> vm_set keqb (fst p) ((snd p), (S O)) m) l []

type ('k, 'v) mchange =
| InsertMany of 'k * 'v * nat
| RemoveMany of 'k * nat
| InsertSingle of 'k * 'v
| RemoveSingle of 'k

type op =
| OIns
| ORem

(** val new_change : 'a1 -> 'a2 -> nat -> op -> ('a1, 'a2) mchange **)

let new_change k v count = function
| OIns ->
  (match count with
   | O -> InsertMany (k, v, count)
   | S n ->
     (match n with
      | O -> InsertSingle (k, v)
      | S _ -> InsertMany (k, v, count)))
| ORem ->
  (match count with
   | O -> RemoveMany (k, count)
   | S n -> (match n with
             | O -> RemoveSingle k
             | S _ -> RemoveMany (k, count)))

type ('k, 'v) mdiff =
| Replace of ('k * 'v) list
| Modify of ('k, 'v) mchange list

(** val expand : ('a1, 'a2) vmap -> ('a1 * 'a2) list **)

let expand m =
  flat_map (fun p -> repeat ((fst p), (fst (snd p))) (snd (snd p))) m

(** val diff_loop :
    ('a1 -> 'a1 -> bool) -> ('a2 -> 'a2 -> bool) -> ('a1, 'a2) vmap -> ('a1,
    'a2) vmap -> ('a1, 'a2) mchange list -> (('a1, 'a2) mchange list * ('a1,
    'a2) vmap) option **)

let rec diff_loop keqb veqb cur prev acc =
  match cur with
  | [] -> Some (acc, prev)
  | p :: cur' ->
    let (k, p0) = p in
    let (v, cc) = p0 in
    (match vm_get keqb k prev with
     | Some p1 ->
       let (pv, pc) = p1 in
       let prev' = vm_remove keqb k prev in
       if veqb pv v
       then if Nat.ltb pc cc
            then diff_loop keqb veqb cur' prev'
                   (app acc ((new_change k v (sub cc pc) OIns) :: []))
            else if Nat.ltb cc pc
                 then diff_loop keqb veqb cur' prev'
                        (app acc ((new_change k v (sub pc cc) ORem) :: []))
                 else diff_loop keqb veqb cur' prev' acc
       else if negb (veqb pv v)
            then diff_loop keqb veqb cur' prev'
                   (app acc
                     ((new_change k pv pc ORem) :: ((new_change k v cc OIns) :: [])))
            else None
     | None ->
       diff_loop keqb veqb cur' prev
         (app acc ((new_change k v cc OIns) :: [])))

(** val hashcmp :
    ('a1 -> 'a1 -> bool) -> ('a2 -> 'a2 -> bool) -> (('a1 * ('a2 * nat)) list
    -> ('a1 * ('a2 * nat)) list) -> bool -> ('a1 * 'a2) list -> ('a1 * 'a2)
    list -> ('a1, 'a2) mdiff option option **)

let hashcmp keqb veqb iter_order key_only previous current =
  let prev =
    if key_only
    then collect_key keqb previous
    else collect_key_value keqb veqb previous
  in
  let cur =
    if key_only
    then collect_key keqb current
    else collect_key_value keqb veqb current
  in
  if Z.ltb (Z.of_nat (length cur))
       (Z.sub (Z.of_nat (length prev)) (Z.of_nat (length cur)))
  then Some (Some (Replace (expand (iter_order cur))))
  else (match diff_loop keqb veqb (iter_order cur) prev [] with
        | Some p ->
          let (acc, rest) = p in
          let l =
            map (fun p0 ->
              new_change (fst p0) (fst (snd p0)) (snd (snd p0)) ORem)
              (iter_order rest)
          in
          (match app acc l with
           | [] -> Some None
           | m :: l0 -> Some (Some (Modify (m :: l0))))
        | None -> None)

(** val is_insert : ('a1, 'a2) mchange -> bool **)

let is_insert = function
| InsertMany (_, _, _) -> true
| InsertSingle (_, _) -> true
| _ -> false

(** val rem_step :
    ('a1 -> 'a1 -> bool) -> ('a1, 'a2) vmap -> ('a1, 'a2) mchange -> ('a1,
    'a2) vmap **)

let rem_step keqb m = function
| RemoveMany (k, n) ->
  (match vm_get keqb k m with
   | Some p ->
     let (v, c0) = p in
     if Nat.ltb n c0
     then vm_set keqb k (v, (sub c0 n)) m
     else vm_remove keqb k m
   | None -> m)
| RemoveSingle k ->
  (match vm_get keqb k m with
   | Some p ->
     let (v, c0) = p in
     if Nat.ltb (S O) c0
     then vm_set keqb k (v, (sub c0 (S O))) m
     else vm_remove keqb k m
   | None -> m)
| _ -> m

(** val ins_step :
    ('a1 -> 'a1 -> bool) -> ('a1, 'a2) vmap -> ('a1, 'a2) mchange -> ('a1,
    'a2) vmap **)

let ins_step keqb m = function
| InsertMany (k, v, n) ->
  (match vm_get keqb k m with
   | Some p -> let (v0, c0) = p in vm_set keqb k (v0, (add c0 n)) m
   | None -> vm_set keqb k (v, n) m)
| InsertSingle (k, v) ->
  (match vm_get keqb k m with
   | Some p -> let (v0, c0) = p in vm_set keqb k (v0, (add c0 (S O))) m
   | None -> vm_set keqb k (v, (S O)) m)
| _ -> m

(** val apply :
    ('a1 -> 'a1 -> bool) -> (('a1 * ('a2 * nat)) list -> ('a1 * ('a2 * nat))
    list) -> ('a1 * 'a2) list -> ('a1, 'a2) mdiff -> ('a1 * 'a2) list **)

let apply keqb iter_order base = function
| Replace xs -> xs
| Modify cs ->
  let ins = filter is_insert cs in
  let rems = filter (fun c -> negb (is_insert c)) cs in
  expand
    (iter_order
      (fold_left (ins_step keqb) ins
        (fold_left (rem_step keqb) rems (collect_key keqb base))))
